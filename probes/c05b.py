import warnings, itertools, collections, sys, multiprocessing as mp
warnings.simplefilter("ignore")
from c06b import parsers, Budget
from refpda import *
from pvl.exceptions import LexerError, ParseError
from pvl.parser import EmptyValueAtLine
from pvl.collections import Quantity, PVLGroup, PVLObject
ALPHA=[("NAME","a",None),("NAME","b",None),("EQ","=",None),("VAL","1",1),("QUOTED",'"s"',"s"),("LP","(",None),("RP",")",None),("LB","{",None),("RB","}",None),("COMMA",",",None),("SEMI",";",None),("UNITS","<m>","m"),("BEGIN","GROUP","G"),("BEGIN","OBJECT","O"),("ENDAGG","END_GROUP","G"),("ENDAGG","END_OBJECT","O"),("END","END",None),("COMMENT","/*c*/",None)]
def conv(v):
    if isinstance(v,EmptyValueAtLine): return EMPTY
    if isinstance(v,Quantity): return ("Q",conv(v.value),v.units)
    if isinstance(v,list): return ("SEQ",[conv(x) for x in v])
    if isinstance(v,(set,frozenset)): return ("SET",sorted((conv(x) for x in v),key=repr))
    if isinstance(v,PVLGroup): return ("G",[(k,conv(x)) for k,x in v])
    if isinstance(v,PVLObject): return ("O",[(k,conv(x)) for k,x in v])
    return v
def normset(v):
    if isinstance(v,tuple) and v and v[0]=="SET": return ("SET",sorted((normset(x) for x in v[1]),key=repr))
    if isinstance(v,tuple) and v and v[0]=="SEQ": return ("SEQ",[normset(x) for x in v[1]])
    if isinstance(v,tuple) and v and v[0]=="Q": return ("Q",normset(v[1]),v[2])
    if isinstance(v,tuple) and v and v[0] in("G","O"): return (v[0],[(k,normset(x)) for k,x in v[1]])
    return v
P=None
def work(args):
    global P
    if P is None: P=dict(parsers())
    L,first=args
    res=collections.Counter(); ex={}
    for tup in itertools.product(range(len(ALPHA)),repeat=L-1):
        toks=[ALPHA[first]]+[ALPHA[i] for i in tup]
        text=" ".join(t[1] for t in toks)
        for d in ("PVL","ODL","OMNI"):
            try: ref=("WELL",[(k,normset(v)) for k,v in parse(toks,omni=(d=="OMNI"),odl=(d=="ODL"))])
            except Ill as e: ref=("ILL",str(e)[:25])
            except Unspec: ref=("UNSPEC",)
            p=P[d]
            try:
                p.errors=[]; m=p.parse(text); got=("OK",[(k,conv(v)) for k,v in m])
            except Budget: got=("SPIN",)
            except (LexerError,ParseError): got=("RAISE",)
            except Exception as e: got=("EXC",type(e).__name__)
            if ref[0]=="UNSPEC": k=None
            elif ref[0]=="WELL": k=None if got==("OK",ref[1]) else (d,"WELL-but",got[0] if got[0]!="OK" else "DIFFERENT")
            else: k=None if got[0]=="RAISE" else (d,"ILL-but",got[0],ref[1])
            res[d,ref[0]]+=1
            if k: 
                res[k]+=1; ex.setdefault(k,[])
                if len(ex[k])<5: ex[k].append((text, got[1] if got[0]=="OK" else None))
    return res,ex
if __name__=="__main__":
    N=int(sys.argv[1])
    tot=collections.Counter(); exs={}
    with mp.Pool(16) as pool:
        for L in range(1,N+1):
            for res,ex in pool.imap_unordered(work,[(L,i) for i in range(len(ALPHA))]):
                tot.update(res)
                for k,v in ex.items(): exs.setdefault(k,[]).extend(v)
    for k in sorted(tot,key=str): print(k,tot[k],sorted(exs.get(k,[]),key=lambda x:len(x[0]))[:4])
