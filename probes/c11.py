import warnings, copy, pickle
warnings.simplefilter("ignore")
from pvl.collections import OrderedMultiDict, PVLModule, PVLGroup, PVLObject
def dump(o, d=0):
    if isinstance(o, OrderedMultiDict):
        return (type(o).__name__, [(k, dump(v)) for k,v in list(o)], sorted((k,[dump(x) for x in v]) for k,v in dict.items(o)))
    return o
for cls in (OrderedMultiDict, PVLModule, PVLGroup, PVLObject):
    m = cls([("a",1),("g",PVLGroup([("x",1),("x",2)])),("a",3)])
    before = dump(m)
    for name,f in [("copy()",lambda m:m.copy()),("copy.copy",copy.copy),("deepcopy",copy.deepcopy),("pickle",lambda m:pickle.loads(pickle.dumps(m))),
                   ("pickle0",lambda m:pickle.loads(pickle.dumps(m,0))),("pickle2",lambda m:pickle.loads(pickle.dumps(m,2)))]:
        try:
            c=f(m)
            print(cls.__name__,name,"eq",c==m,"cls",type(c).__name__,"orig_intact",dump(m)==before, "copydump==orig", dump(c)==before)
            if dump(c)!=before: print("   copy:",dump(c))
            if dump(m)!=before: print("   ORIG NOW:",dump(m))
            # independence
            c.append("z",9); c["a"]=100
            print("     after mutate copy: orig intact",dump(m)==before)
            if name in("deepcopy","pickle"):
                c["g"].append("y",5)
                print("     after nested mutate: orig intact",dump(m)==before)
        except Exception as e:
            print(cls.__name__,name,"EXC",type(e).__name__,e)
        m = cls([("a",1),("g",PVLGroup([("x",1),("x",2)])),("a",3)])
    break
# update with multidict
m=PVLModule([("a",1)]); 
try: m.update(PVLModule([("b",2)])); print("update(md)",list(m))
except Exception as e: print("update(md) EXC",type(e).__name__,e)
