import warnings, itertools, collections
warnings.simplefilter("ignore")
from pvl.collections import OrderedMultiDict, PVLModule, PVLGroup, PVLObject
K=["a","b"]; V=[1,2]
def ops(n):
    for k in K:
        for v in V:
            yield ("append",k,v); yield ("setitem",k,v); yield ("setdefault",k,v)
            yield ("update_dict",k,v); yield ("update_pairs",k,v); yield ("update_kw",k,v)
            yield ("extend_list",k,v); yield ("extend_dict",k,v); yield ("extend_md",k,v); yield ("extend_kw",k,v)
            for i in range(-2,n+2):
                yield ("insert3",i,k,v); yield ("insert_pair",i,k,v); yield ("insert_dict",i,k,v); yield ("insert_list2",i,k,v)
            for k2 in K:
                for inst in (0,1,-1):
                    yield ("insert_after",k2,k,v,inst); yield ("insert_before",k2,k,v,inst)
        yield ("delitem",k); yield ("popk",k); yield ("popall",k); yield ("discard",k); yield("popkd",k); yield("popalld",k); yield ("setdefault0",k)
    yield ("pop",); yield ("popitem",); yield ("clear",)
def apply_impl(o,op):
    n=op[0]
    if n=="append": return o.append(op[1],op[2])
    if n=="setitem": o[op[1]]=op[2]; return None
    if n=="setdefault": return o.setdefault(op[1],op[2])
    if n=="setdefault0": return o.setdefault(op[1])
    if n=="update_dict": return o.update({op[1]:op[2]})
    if n=="update_pairs": return o.update([(op[1],op[2])])
    if n=="update_kw": return o.update(**{op[1]:op[2]})
    if n=="extend_list": return o.extend([(op[1],op[2]),("b",9)])
    if n=="extend_dict": return o.extend({op[1]:op[2]})
    if n=="extend_md": return o.extend(OrderedMultiDict([(op[1],op[2]),(op[1],7)]))
    if n=="extend_kw": return o.extend(**{op[1]:op[2]})
    if n=="insert3": return o.insert(op[1],op[2],op[3])
    if n=="insert_pair": return o.insert(op[1],(op[2],op[3]))
    if n=="insert_dict": return o.insert(op[1],{op[2]:op[3]})
    if n=="insert_list2": return o.insert(op[1],[(op[2],op[3]),("b",8)])
    if n=="insert_after": return o.insert_after(op[1],(op[2],op[3]),op[4])
    if n=="insert_before": return o.insert_before(op[1],(op[2],op[3]),op[4])
    if n=="delitem": del o[op[1]]; return None
    if n=="popk": return o.pop(op[1])
    if n=="popkd": return o.pop(op[1],"D")
    if n=="popall": return o.popall(op[1])
    if n=="popalld": return o.popall(op[1],"D")
    if n=="discard": return o.discard(op[1])
    if n=="pop": return o.pop()
    if n=="popitem": return o.popitem()
    if n=="clear": return o.clear()
def setitem(L,k,v):
    keys=[x for x,_ in L]
    if k not in keys: L.append((k,v)); return
    i=keys.index(k); L[:]=L[:i]+[(k,v)]+[p for p in L[i+1:] if p[0]!=k]
def apply_model(L,op):
    n=op[0]; keys=[k for k,_ in L]
    if n=="append": L.append((op[1],op[2])); return None
    if n in("setitem","update_dict","update_pairs","update_kw"): setitem(L,op[1],op[2]); return None
    if n in("setdefault","setdefault0"):
        k=op[1]; v=op[2] if n=="setdefault" else None
        if k in keys: return L[keys.index(k)][1]
        L.append((k,v)); return v
    if n=="extend_list": L.extend([(op[1],op[2]),("b",9)]); return None
    if n in("extend_dict","extend_kw"): L.append((op[1],op[2])); return None
    if n=="extend_md": L.extend([(op[1],op[2]),(op[1],7)]); return None
    if n in("insert3","insert_pair","insert_dict"): L.insert(op[1],(op[2],op[3])); return None
    if n=="insert_list2":
        i=op[1]
        # list.insert semantics for first, then index+1 for the second (documented: inserts the pairs at the index)
        L.insert(i,(op[2],op[3])); L.insert(i+1,("b",8)); return None
    if n in("insert_after","insert_before"):
        if op[1] not in keys: raise KeyError
        idxs=[i for i,k in enumerate(keys) if k==op[1]]
        try: i=idxs[op[4]]
        except IndexError: raise
        L.insert(i+1 if n=="insert_after" else i,(op[2],op[3])); return None
    if n in("delitem","popk","popall","discard","popkd","popalld"):
        k=op[1]
        if k not in keys:
            if n=="discard": return None
            if n in("popkd","popalld"): return "D"
            raise KeyError
        v=L[keys.index(k)][1]; L[:]=[p for p in L if p[0]!=k]
        return v if n in("popk","popall","popkd","popalld") else None
    if n in("pop","popitem"):
        if not L: raise KeyError
        return L.pop()
    if n=="clear": L.clear(); return None
exec(open("c10.py").read().split("def observe(o):")[1].split("seen={")[0].join(["def observe(o):",""]))
def storage_ok(o):
    import collections as c
    d=c.OrderedDict()
    for k,v in o._OrderedMultiDict__items: d.setdefault(k,[]).append(v)
    return dict(dict.items(o))==dict(d)
seen={(): []}; frontier=collections.deque([[]]); bad=collections.Counter(); ex={}; trans=0; MAXLEN=3
while frontier:
    hist=frontier.popleft()
    o0=OrderedMultiDict(); L0=[]
    for h in hist: apply_impl(o0,h); apply_model(L0,h)
    for op in ops(len(L0)):
        if op[0].startswith("setdefault"): continue   # F1 known
        o=OrderedMultiDict(); L=[]
        for h in hist: apply_impl(o,h); apply_model(L,h)
        try: rm=("ok",apply_model(L,op))
        except KeyError: rm=("KeyError",)
        except IndexError: rm=("IndexError",)
        try: ri=("ok",apply_impl(o,op))
        except Exception as e: ri=(type(e).__name__,)
        trans+=1
        if ri!=rm: bad[op[0]+":ret"]+=1; ex.setdefault(op[0]+":ret",(hist,op,ri,rm)); 
        if rm[0]!="ok" and ri[0]!="ok": pass
        try: oi=observe(o)
        except Exception as e: bad[op[0]+":crash"]+=1; ex.setdefault(op[0]+":crash",(hist,op,repr(e))); continue
        om=observe_model(L)
        if oi!=om:
            d=[k for k in oi if oi[k]!=om[k]]
            bad[op[0]+":state"]+=1; ex.setdefault(op[0]+":state",(hist,op,[(k,oi[k],om[k]) for k in d][:3])); continue
        if not storage_ok(o): bad[op[0]+":storage"]+=1; ex.setdefault(op[0]+":storage",(hist,op))
        st=tuple(L)
        if st not in seen and len(L)<=MAXLEN: seen[st]=hist+[op]; frontier.append(hist+[op])
print("states",len(seen),"trans",trans)
for k,v in bad.items(): print(k,v,ex[k])
# equality
objs={}
for st in seen:
    for cls in (OrderedMultiDict,PVLModule,PVLGroup):
        objs[cls,st]=cls(list(st))
n=0;be=0
for (c1,s1),o1 in objs.items():
    for (c2,s2),o2 in objs.items():
        if c1 is c2:
            n+=1
            if (o1==o2)!=(s1==s2) or (o1!=o2)==(s1==s2): be+=1
print("eq pairs",n,"bad",be)
