import warnings, itertools, collections, datetime as dt
warnings.simplefilter("ignore")
import pvl
from pvl.collections import Quantity
from c06b import parsers, Budget
from pvl.exceptions import LexerError, ParseError
utc=dt.timezone.utc
# (spelling, expected python value, dialects where permitted)
ALL={"PVL","ODL","PDS3","ISIS","OMNI"}
PVLF={"PVL","ISIS","OMNI"}; ODLF={"ODL","PDS3","OMNI"}
SP=[]
for s,v in [("0",0),("7",7),("+7",7),("-7",-7),("007",7),("-0",0),("123456789012345678901234567890",123456789012345678901234567890)]: SP.append((s,v,ALL))
for s,v in [("1.5",1.5),("+1.5",1.5),("-1.5",-1.5),("1.",1.0),(".5",0.5),("-.5",-0.5),("+.5",0.5),("1.5E3",1500.0),("1.5e3",1500.0),("1.5E+3",1500.0),("1.5e-3",0.0015),("-1.5E-3",-0.0015),("1.E3",1000.0),(".5E1",5.0),("0.0",0.0),("1.50",1.5)]: SP.append((s,v,ALL))
for s,v in [("2#101#",5),("+2#101#",5),("-2#101#",-5),("8#17#",15),("-8#17#",-15),("16#FF#",255),("16#ff#",255),("+16#fF#",255),("-16#A#",-10)]: SP.append((s,v,PVLF if s[0] in "+-" else ALL))
for s,v in [("2#+101#",5),("2#-101#",-5),("16#-FF#",-255),("16#+a#",10),("3#12#",5),("10#75#",75),("12#B#",11),("7#66#",48),("9#-8#",-8)]: SP.append((s,v,ODLF))
for s,v in [("abc","abc"),("A_B1","A_B1"),("x","x")]: SP.append((s,v,ALL))
for s,v in [("a.b","a.b"),("a-b","a-b"),("a:b","a:b"),("^p","^p"),("a/b","a/b"),("$x","$x"),("a\\b","a\\b"),("1a","1a"),("a@b","a@b"),("-","-"),("a_","a_")]: SP.append((s,v,PVLF))
for s,v in [("a+b","a+b"),("+x","+x")]: SP.append((s,v,{"ISIS","OMNI"}))
for s,v in [('"abc"',"abc"),("'abc'","abc"),('"a b"',"a b"),("'a b'","a b"),('"it\'s"',"it's"),("'say \"x\"'",'say "x"'),('""',""),("''",""),('"1"',"1"),('"NULL"',"NULL"),('"/* x */"',"/* x */"),('"a=b;(c),{d}<e>"',"a=b;(c),{d}<e>"),('"#"',"#"),('"END"',"END")]: SP.append((s,v,ALL))
for s,v in [("NULL",None),("null",None),("Null",None),("TRUE",True),("true",True),("False",False),("FALSE",False)]: SP.append((s,v,ALL))
for s,v in [("2001-01-01",dt.date(2001,1,1)),("2001-001",dt.date(2001,1,1)),("2000-366",dt.date(2000,12,31)),("0001-01-01",dt.date(1,1,1))]: SP.append((s,v,ALL))
for s,v in [("12:34",dt.time(12,34)),("12:34:56",dt.time(12,34,56)),("12:34:56.5",dt.time(12,34,56,500000)),("12:34:56.123",dt.time(12,34,56,123000)),("2001-01-01T12:34:56",dt.datetime(2001,1,1,12,34,56)),("2001-001T12:34",dt.datetime(2001,1,1,12,34))]:
    for z in ("","Z"):
        for d in ALL:
            tzv = utc if (z=="Z" or d!="ODL") else None
            SP.append((s+z, v.replace(tzinfo=tzv), {d}))
for s,v in [("12:34+01",dt.time(12,34,tzinfo=dt.timezone(dt.timedelta(hours=1)))),("12:34:56-07",dt.time(12,34,56,tzinfo=dt.timezone(dt.timedelta(hours=-7)))),("2001-01-01T12:34+05:30",dt.datetime(2001,1,1,12,34,tzinfo=dt.timezone(dt.timedelta(hours=5,minutes=30)))),("12:34:56.5+1",dt.time(12,34,56,500000,tzinfo=dt.timezone(dt.timedelta(hours=1))))]: SP.append((s,v,{"ODL","OMNI"}))
def same(a,b):
    if type(a)!=type(b) and not (isinstance(a,(set,frozenset)) and isinstance(b,(set,frozenset))): return False
    if isinstance(a,list): return len(a)==len(b) and all(same(x,y) for x,y in zip(a,b))
    if isinstance(a,Quantity): return same(a.value,b.value) and a.units==b.units
    if isinstance(a,(dt.time,dt.datetime)):
        return a.replace(tzinfo=None)==b.replace(tzinfo=None) and ((a.tzinfo is None)==(b.tzinfo is None)) and (a.tzinfo is None or a.tzinfo.utcoffset(None)==b.tzinfo.utcoffset(None))
    if isinstance(a,float): return repr(a)==repr(b)
    return a==b
# contexts: (template, builder of expected from value, dialect restriction or None, needs: 'any'|'numeric')
CTX=[("k = {}",lambda v:v,None,"any"),("k = {}\nEND",lambda v:v,None,"any"),("k={}",lambda v:v,None,"any"),("k = {};",lambda v:v,None,"any"),("k = {} ;",lambda v:v,None,"any"),("k = {}/* c */",lambda v:v,None,"any"),("k = {} /* c */\nj = 1",lambda v:v,None,"any"),("k = /* c */{}",lambda v:v,None,"any"),
 ("k = {}\nj = 2",lambda v:v,None,"any"),("k = {}\nGROUP = g\nx = 1\nEND_GROUP",lambda v:v,None,"any"),
 ("k = ({})",lambda v:[v],None,"any"),("k = ( {} )",lambda v:[v],None,"any"),("k = ({},{})",lambda v:[v,v],None,"any"),("k = ({}, {})",lambda v:[v,v],None,"any"),("k = (1,{},2)",lambda v:[1,v,2],None,"any"),("k = (1 , {} , 2)",lambda v:[1,v,2],None,"any"),("k = (({}))",lambda v:[[v]],None,"any"),("k = (({}),({}))",lambda v:[[v],[v]],None,"any"),
 ("k = {{{}}}",lambda v:{v},None,"hash"),("k = {{ {} , 1 }}",lambda v:{v,1},None,"hash"),
 ("k = {} <m>",lambda v:Quantity(v,"m"),None,"numeric"),("k = {}<m>",lambda v:Quantity(v,"m"),None,"numeric"),("k = {} < m/s >",lambda v:Quantity(v,"m/s"),None,"numeric"),("k = ({} <m>, {} <s>)",lambda v:[Quantity(v,"m"),Quantity(v,"s")],None,"numeric"),
 ("k = {} # c\nj = 1",lambda v:v,{"ISIS","OMNI"},"any"),("k = {}\n# c\n",lambda v:v,{"ISIS","OMNI"},"any"),
 ("GROUP = g\n k = {}\nEND_GROUP\nEND",lambda v:v,None,"ingroup"),("OBJECT = o k = {} END_OBJECT = o",lambda v:v,None,"ingroup"),
]
P=dict(parsers())
res=collections.Counter(); ex={}
n=0
for s,v,ds in SP:
    for tmpl,build,only,need in CTX:
        if need=="numeric" and not (isinstance(v,(int,float)) and not isinstance(v,bool)): continue
        if need=="hash":
            pass
        text=tmpl.format(s) if "{{" in tmpl else tmpl.replace("{}",s)
        exp_v=build(v)
        for d in ds:
            if only and d not in only: continue
            p=P[d]; n+=1
            try:
                p.errors=[]; m=p.parse(text)
                if need=="ingroup": got=list(m)[0][1]["k"]
                else: got=m["k"]
                if need=="hash": ok = isinstance(got,(set,frozenset)) and len(got)==len(exp_v) and all(any(same(x,y) for y in got) for x in exp_v)
                else: ok=same(got,exp_v)
                r="ok" if ok else "WRONG"
            except Budget: r="SPIN"; got=None
            except (LexerError,ParseError) as e: r="REJECT"; got=None
            except Exception as e: r="EXC:"+type(e).__name__; got=None
            if r!="ok":
                k=(d,r,s); res[k]+=1; ex.setdefault(k,[]).append((tmpl,got))
print("n",n)
agg=collections.defaultdict(list)
for (d,r,s),c in res.items(): agg[(r,s)].append((d,c))
for k in sorted(agg): print(k,sorted(agg[k]), [ (t,g) for t,g in ex[(agg[k][0][0],k[0],k[1])][:3]])
