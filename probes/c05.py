import warnings, itertools, collections, sys
warnings.simplefilter("ignore")
from c06b import *
alpha='a=1 ;(,){}<"/*#-\n'
P=list(parsers())
acc=collections.defaultdict(list)
for L in range(0,5):
    for tup in itertools.product(alpha,repeat=L):
        s="".join(tup)
        for name,p in P:
            try:
                p.errors=[]
                m=p.parse(s); acc[name].append((s,list(m)))
            except BaseException: pass
for name in ("PVL","ODL","OMNI"):
    print("=====",name,len(acc[name]))
    seen=collections.defaultdict(list)
    for s,m in acc[name]: seen[repr(m)].append(s)
    for k,v in list(seen.items())[:70]: print("  ",k[:80],len(v),[x for x in v[:14]])
