"""Prototype surface reader (R5) for encoder output.  Module-directed."""
import re, datetime as dt
from collections import abc
class Bad(Exception): pass
ID=r"[A-Z][A-Z0-9_]*"
def odl_name_ok(n):
    m=re.fullmatch(r"\^?(%s)(?::(%s))?"%(ID,ID), n)
    if not m: return False
    return not any(p and p.endswith("_") for p in m.groups()) and len(n)<=30
def check(text, module, dialect, cfg):
    """cfg: indent,width,newline,aggregation_end,end_delimiter ; raises Bad(rule, detail)"""
    nl=cfg["newline"]; ind=cfg["indent"]; width=cfg["width"]; delim=";" if cfg["end_delimiter"] else ""
    odl = dialect in("ODL","PDS3")
    kw={"PVL":("BEGIN_GROUP","END_GROUP","BEGIN_OBJECT","END_OBJECT"),"ODL":("GROUP","END_GROUP","OBJECT","END_OBJECT"),"PDS3":("GROUP","END_GROUP","OBJECT","END_OBJECT"),"ISIS":("Group","End_Group","Object","End_Object")}[dialect]
    # charset
    for c in text:
        o=ord(c)
        if odl and o>127: raise Bad("charset",repr(c))
        if not odl and (o>255 or o<=8 or 14<=o<=31 or 127<=o<=159): raise Bad("charset",repr(c))
    if dialect=="PDS3" and cfg.get("tab_replace",4)>0 and "\t" in text: raise Bad("tab","")
    # physical lines with quote tracking: split at nl only when not inside a quoted string
    lines=[]; cur=""; q=None; i=0
    while i<len(text):
        c=text[i]
        if q:
            cur+=c
            if c==q: q=None
            i+=1; continue
        if c in "\"'": q=c; cur+=c; i+=1; continue
        if text.startswith(nl,i):
            lines.append(cur); cur=""; i+=len(nl); continue
        if c in "\r\n": raise Bad("line-end","bare %r outside quotes at %d"%(c,i))
        cur+=c; i+=1
    if q: raise Bad("quote","unterminated")
    tail=cur
    if odl:
        if tail!="": raise Bad("final-newline","text does not end with line end")
    else:
        lines.append(tail)
    # symbol strings one line
    if odl:
        for m in re.finditer(r"'[^']*'", re.sub(r'"[^"]*"', '""', text, flags=re.S), flags=re.S):
            if "\n" in m.group(0) or "\r" in m.group(0): raise Bad("symbol-one-line",m.group(0)[:30])
    pos=[0]
    def stmt_lines():
        """take the lines of the statement starting at pos: first line + continuation lines (those that do not start a statement at any plausible indent are decided by caller)"""
    def expect_block(mod, level):
        prefix=" "*(ind*level)
        items=list(mod.items())
        single=[]  # (col of '=', line) for one-line sibling assignments that fit
        for idx,(k,v) in enumerate(items):
            if pos[0]>=len(lines): raise Bad("missing-statement",k)
            line=lines[pos[0]]
            if isinstance(v,abc.Mapping):
                isgrp = type(v).__name__.startswith("PVLGroup")
                cands=[(kw[0],kw[1]),(kw[2],kw[3])]
                for b,e in cands:
                    if line==f"{prefix}{b} = {k}{delim}":
                        pos[0]+=1; expect_block(v,level+1)
                        if pos[0]>=len(lines): raise Bad("block-not-closed",k)
                        endl=lines[pos[0]]
                        want=f"{prefix}{e} = {k}{delim}" if cfg["aggregation_end"] else f"{prefix}{e}{delim}"
                        if endl!=want: raise Bad("end-statement",(endl,want))
                        pos[0]+=1; break
                else: raise Bad("begin-statement",(line,k))
            else:
                name = k.upper() if odl else k
                m=re.match(r"( *)(\S+)( *)= ?(.*)$", line, flags=re.S)
                if not m or m.group(2)!=name: raise Bad("statement-start",(line[:60],name))
                if m.group(1)!=prefix: raise Bad("indent",(line[:40],level))
                if odl and not odl_name_ok(name): raise Bad("odl-name",name)
                # continuation: following lines until next expected statement start
                start=pos[0]; pos[0]+=1
                nxt=None
                if idx+1<len(items):
                    nk,nv=items[idx+1]
                    nname=nk.upper() if odl and not isinstance(nv,abc.Mapping) else nk
                    if isinstance(nv,abc.Mapping): pats=[f"{prefix}{kw[0]} = {nk}{delim}",f"{prefix}{kw[2]} = {nk}{delim}"]
                    else: pats=None
                def is_next(l):
                    if idx+1<len(items):
                        if pats is not None: return l in pats
                        mm=re.match(r"( *)(\S+) *=", l); return bool(mm) and mm.group(1)==prefix and mm.group(2)==nname
                    else:
                        # end of block: end statement or END
                        if level==0: return l=="END"+delim
                        return l.startswith(" "*(ind*(level-1))+kw[1]) or l.startswith(" "*(ind*(level-1))+kw[3])
                while pos[0]<len(lines) and not is_next(lines[pos[0]]): pos[0]+=1
                body=lines[start:pos[0]]
                if len(body)==1 and "\n" not in body[0] and len(body[0])+len(nl)<=width:
                    single.append((body[0].index("=",len(prefix)+len(name)),body[0]))
                if delim and not body[-1].endswith(delim): raise Bad("delimiter",body[-1][-20:])
                if not delim and odl and body[-1].rstrip().endswith(";"): raise Bad("stray-delimiter",body[-1][-20:])
        cols={c for c,_ in single}
        if len(cols)>1: raise Bad("alignment",[l for _,l in single][:4])
    expect_block(module,0)
    if pos[0]>=len(lines) or lines[pos[0]]!="END"+delim: raise Bad("END-line",lines[pos[0]:pos[0]+2])
    if pos[0]!=len(lines)-1: raise Bad("after-END",lines[pos[0]+1:])
    return True
