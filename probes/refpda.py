"""Prototype reference recogniser over abstract tokens (three-valued)."""
# token = (kind, text, payload)
# kinds: NAME, EQ, VAL(simple value, payload=python value), LP RP LB RB COMMA SEMI UNITS BEGIN(payload 'G'|'O') ENDAGG(payload 'G'|'O') END QUOTED COMMENT
class Ill(Exception): pass
class Unspec(Exception): pass
EMPTY=("EMPTY",)
def parse(tokens, omni=False, odl=False):
    """returns tree (list of (name,value)) or raises Ill/Unspec. value: python value, ('Q',v,u), ('SEQ',[..]), ('SET',[..]), ('G'|'O', [items]), EMPTY"""
    toks=[t for t in tokens if t[0]!="COMMENT"]
    pos=[0]
    def peek(k=0): 
        i=pos[0]+k
        return toks[i] if i<len(toks) else ("EOF","",None)
    def nxt():
        t=peek(); pos[0]+=1; return t
    def is_name(t): return t[0]=="NAME"
    def stmt_start(k=0):
        t=peek(k)
        return t[0] in("BEGIN",) or (is_name(t) and peek(k+1)[0]=="EQ")
    def value():
        t=peek()
        if t[0] in("VAL","QUOTED") or (t[0]=="NAME"):   # a NAME token in value position is an unquoted string
            nxt(); v=t[2] if t[0]!="NAME" else t[1]
        elif t[0]=="LP": v=("SEQ",seqset("LP","RP"))
        elif t[0]=="LB": v=("SET",seqset("LB","RB"))
        else: raise Ill("expected value, got %s"%(t,))
        if peek()[0]=="UNITS":
            u=nxt()
            if odl and not (isinstance(v,(int,float)) and not isinstance(v,bool)): raise Unspec("odl units on non-number")
            v=("Q",v,u[2])
        return v
    def seqset(o,c):
        nxt(); items=[]
        if peek()[0]==c:
            nxt()
            if odl: raise Unspec("empty seq/set in ODL")
            return items
        while True:
            items.append(value())
            t=nxt()
            if t[0]==c: return items
            if t[0]!="COMMA": raise Ill("expected , or close got %s"%(t,))
    def statements(inblock):
        items=[]
        while True:
            t=peek()
            if t[0]=="EOF": return items
            if t[0]=="END":
                return items
            if t[0]=="ENDAGG": return items
            if t[0]=="BEGIN":
                nxt()
                if nxt()[0]!="EQ": raise Ill("begin without =")
                n=nxt()
                if not is_name(n): raise Ill("block name")
                if peek()[0]=="SEMI": nxt()
                body=statements(True)
                e=nxt()
                if e[0]!="ENDAGG" : raise Ill("block left open")
                if e[2]!=t[2]: raise Ill("mispaired end")
                if peek()[0]=="EQ":
                    nxt(); n2=nxt()
                    if not is_name(n2): raise Ill("end block name not a name")
                    if n2[1]!=n[1]: raise Ill("block name mismatch")
                if peek()[0]=="SEMI": nxt()
                if not body: emptyblock[0]=True
                items.append((n[1],(t[2],body)))
            elif is_name(t):
                nxt()
                if nxt()[0]!="EQ": raise Ill("name without =")
                p=peek()
                if omni and (p[0] in("EOF","END","ENDAGG","SEMI","BEGIN") or (is_name(p) and peek(1)[0]=="EQ")):
                    v=EMPTY
                    # careful: BEGIN as a value? 'a = GROUP = g' -> a empty then block
                else:
                    v=value()
                if peek()[0]=="SEMI": nxt()
                items.append((t[1],v))
            else:
                raise Ill("stray token %s"%(t,))
    emptyblock=[False]
    items=statements(False)
    t=peek()
    if t[0]=="ENDAGG": raise Ill("end agg without begin")
    if t[0] not in("EOF","END"): raise Ill("stray")
    if emptyblock[0]: raise Unspec("empty block")
    return items
