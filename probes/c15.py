import warnings, collections, sys
warnings.simplefilter("ignore")
import pvl
from pvl.grammar import *; from pvl.decoder import *; from pvl.parser import *
from pvl.exceptions import LexerError, ParseError
G={"PVL":PVLGrammar(),"ODL":ODLGrammar(),"PDS3":PDSGrammar(),"ISIS":ISISGrammar(),"OMNI":OmniGrammar()}
def ref_allowed(d,cp):
    if d in("OMNI",): return True
    if d in("PVL","ISIS"):
        return cp<=255 and not (0<=cp<=8 or 14<=cp<=31 or 127<=cp<=159)
    return cp<128
bad=collections.Counter(); ex={}
for d,g in G.items():
    for cp in range(0x110000):
        c=chr(cp)
        try: a=g.char_allowed(c)
        except Exception as e: a="EXC "+type(e).__name__
        if a!=ref_allowed(d,cp):
            bad[d,a]+=1; ex.setdefault((d,a),[]).append(cp)
for k,v in bad.items(): print(k,v,ex[k][:10],ex[k][-3:])
def strict(d):
    if d=="PVL": g=PVLGrammar(); return PVLParser(grammar=g,decoder=PVLDecoder(grammar=g))
    if d=="ODL": g=ODLGrammar(); return ODLParser(grammar=g,decoder=ODLDecoder(grammar=g))
    if d=="PDS3": g=PDSGrammar(); return ODLParser(grammar=g,decoder=PDSLabelDecoder(grammar=g))
    if d=="ISIS": g=ISISGrammar(); return PVLParser(grammar=g,decoder=PVLDecoder(grammar=g))
    if d=="OMNI": return OmniParser()
templates={"name":"a{}b = 1\nEND","unq":"a = x{}y\nEND","dq":'a = "x{}y"\nEND',"sq":"a = 'x{}y'\nEND","comment":"/* c{}d */\na = 1\nEND","units":"a = 1 <m{}s>\nEND","between":"a = 1\n{}\nb = 2\nEND","afterend":"a = 1\nEND\n{}","line2":"a = 1\nb = (1,\n  2{})\nEND","first":"{}a = 1","last":"a = 1{}"}
probes=[0,7,8,9,10,11,12,13,14,27,31,32,126,127,128,159,160,233,255,256,0x20ac,0x1F600,0xD800]
res=collections.Counter(); exs={}
for d in ("PVL","ODL","PDS3","ISIS","OMNI"):
    for tn,t in templates.items():
        for cp in probes:
            c=chr(cp); text=t.format(c); pos=text.index(c) if c in text else None
            try:
                m=strict(d).parse(text); r="ok"
            except LexerError as e:
                cons = (e.pos==pos, e.lineno==text.count("\n",0,e.pos)+1, e.colno==e.pos-text.rfind("\n",0,e.pos))
                r="LexerError pos_ok=%s line_ok=%s col_ok=%s"%cons
            except Exception as e: r="EXC "+type(e).__name__
            allowed=ref_allowed(d,cp)
            key=(d,tn,"allowed" if allowed else "forbidden",r)
            res[key]+=1; exs.setdefault(key,[]).append(cp)
for k in sorted(res):
    if (k[2]=="forbidden" and k[1]!="afterend" and "pos_ok=True line_ok=True col_ok=True" not in k[3]) or (k[2]=="allowed" and k[3]!="ok" and k[1] in("dq","sq","comment")) or (k[2]=="forbidden" and k[1]=="afterend" and k[3]!="ok"):
        print(k,res[k],exs[k][:12])
