import warnings, io, sys, json, os, tempfile, contextlib
warnings.simplefilter("ignore")
import pvl, pvl.pvl_translate as tr, pvl.pvl_validate as va
from pvl.encoder import *
td=tempfile.mkdtemp(dir="/tmp/probe")
texts={"good":"a = 1\nGROUP = g\n b = 'x y'\nEND_GROUP\nEND\n","empty":"a =\nb = 1\nEND\n","dup":"a = 1\na = 2\nEND","dates":"t = 12:00:00+07\nd = 2001-01-01\nEND","set":"s = {1.5}\nEND","bad":"a = (1,\nEND","units":"a = 1 <m>\nEND","hash":"a = 1 # c\nEND","lower":"object = o\n x = 1\nend_object\nend","bin":"a = 1\nEND\n\xff\xfe"}
for n,t in texts.items():
    p=os.path.join(td,n+".lbl"); open(p,"wb").write(t.encode("latin-1"))
    for fmt in tr.formats:
        out=os.path.join(td,"out")
        try:
            m=pvl.load(p)
            exp = json.dumps(m) if fmt=="JSON" else pvl.dumps(m, encoder={"PDS3":PDSLabelEncoder,"ODL":ODLEncoder,"ISIS":ISISEncoder,"PVL":PVLEncoder}[fmt]())
        except Exception as e: exp="EXC "+type(e).__name__
        try:
            tr.main(["-of",fmt,p,out])
            got=open(out,newline="").read()
        except SystemExit as e: got="EXIT %s"%e.code
        except Exception as e: got="EXC "+type(e).__name__
        # argparse FileType files never closed -> flush issue?
        print(n,fmt,"same" if got==exp else ("DIFF",exp[:80],got[:80]))
    buf=io.StringIO()
    try:
        with contextlib.redirect_stdout(buf): va.main([p])
        print(n,"validate:",buf.getvalue().replace("\n"," || "))
    except BaseException as e: print(n,"validate EXC",type(e).__name__,e)
buf=io.StringIO()
with contextlib.redirect_stdout(buf): va.main([os.path.join(td,n+".lbl") for n in texts if n!="bin"])
print(buf.getvalue())
