import warnings, itertools
warnings.simplefilter("ignore")
import pvl
from pvl.parser import EmptyValueAtLine
from c06b import Budget, mk_lexer
from pvl.parser import OmniParser
def show(m):
    out=[]
    for k,v in m:
        if hasattr(v,"items") : out.append((k,show(v)))
        elif isinstance(v,EmptyValueAtLine): out.append((k,"EMPTY@%d"%v.lineno))
        else: out.append((k,v))
    return out
tests=["a =\nb = 2\nEND","a = 1\nb =\nEND","a = 1\nb =","a = 1\nb = \n","a =\nb =\nc = 3","a =\nb =\nEND","a =\nb =","a = ;\nb = 2","a =\nGROUP = g\n x = 1\nEND_GROUP","GROUP = g\n x =\nEND_GROUP\nEND","GROUP = g\n x =\n y = 2\nEND_GROUP\nEND",
"GROUP = g\n x = 1\n y =\nEND_GROUP = g\nz = 3\nEND","GROUP = g\n x =\n y =\nEND_GROUP\nEND","OBJECT = o\n GROUP = g\n  x =\n END_GROUP\n y =\nEND_OBJECT\nEND","a =\nEND","a =\nend","a = \n\n\nb = 1","a\n=\nb = 1","a = /* c */\nb = 1","a = # c\nb = 1","a =\nb = (1,2)\n","a =\nb = 'x y'\n","a =\nb = 1 <m>\n","a =\nb = 2001-01-01\n","a =\nb = NULL\n","a =\nb = \"q\"\nc=1", "a =\nGROUP = g\nEND_GROUP\n","a =\nEND_GROUP\n","GROUP = g\n x =\nEND_GROUP = g\nb = 1\n", "GROUP = g\n x =\nEND_GROUP = h\n","a = 1\r\nb =\r\nc = 2\r\n","a =\n b =\n  c =\n d = 4"]
for t in tests:
    p=OmniParser(lexer_fn=mk_lexer())
    try:
        m=p.parse(t); print(repr(t),"->",show(m),"errors",m.errors)
    except Budget: print(repr(t),"-> SPIN")
    except Exception as e: print(repr(t),"-> EXC",type(e).__name__,str(e)[:100])
