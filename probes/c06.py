import warnings, itertools, collections, sys, time, signal
warnings.simplefilter("ignore")
import pvl
from pvl.grammar import *; from pvl.decoder import *; from pvl.parser import *
from pvl.exceptions import LexerError, ParseError
def parsers():
    g=PVLGrammar(); yield "PVL",PVLParser(grammar=g,decoder=PVLDecoder(grammar=g))
    g=ODLGrammar(); yield "ODL",ODLParser(grammar=g,decoder=ODLDecoder(grammar=g))
    g=PDSGrammar(); yield "PDS3",ODLParser(grammar=g,decoder=PDSLabelDecoder(grammar=g))
    g=ISISGrammar(); yield "ISIS",OmniParser(grammar=g,decoder=OmniDecoder(grammar=g))
    yield "OMNI",OmniParser()
class TO(Exception): pass
def h(*a): raise TO()
signal.signal(signal.SIGALRM,h)
alpha=sys.argv[1]; N=int(sys.argv[2])
res=collections.Counter(); ex={}
t0=time.time(); n=0
P=list(parsers())
for L in range(0,N+1):
    for tup in itertools.product(alpha,repeat=L):
        s="".join(tup)
        for name,p in P:
            n+=1
            signal.setitimer(signal.ITIMER_REAL,2.0)
            try:
                p.errors=[]
                p.parse(s); r="ok"
            except (LexerError,ParseError): r="doc"
            except TO: r="TIMEOUT"
            except Exception as e: r=type(e).__name__
            finally: signal.setitimer(signal.ITIMER_REAL,0)
            res[name,r]+=1
            if r not in("ok","doc"): ex.setdefault((name,r),[]); 
            if r not in("ok","doc") and len(ex[name,r])<6: ex[name,r].append(s)
print("n",n,"t",time.time()-t0)
for k in sorted(res): print(k,res[k],ex.get(k,""))
