import warnings, datetime as dt, collections, itertools, sys, re
warnings.simplefilter("ignore")
import pvl
from pvl.collections import PVLModule, PVLGroup, PVLObject, Quantity
from pvl.grammar import *; from pvl.decoder import *; from pvl.parser import *; from pvl.encoder import *
from pvl.exceptions import LexerError, ParseError
def strict(d):
    if d=="PVL": g=PVLGrammar(); return PVLParser(grammar=g,decoder=PVLDecoder(grammar=g))
    if d=="ODL": g=ODLGrammar(); return ODLParser(grammar=g,decoder=ODLDecoder(grammar=g))
    if d=="PDS3": g=PDSGrammar(); return ODLParser(grammar=g,decoder=PDSLabelDecoder(grammar=g))
    if d=="ISIS": g=ISISGrammar(); return PVLParser(grammar=g,decoder=PVLDecoder(grammar=g))
ENC={"PVL":PVLEncoder,"ODL":ODLEncoder,"PDS3":PDSLabelEncoder,"ISIS":ISISEncoder}
utc=dt.timezone.utc
def tz(h,m=0): return dt.timezone(dt.timedelta(hours=h,minutes=m))
strings=['', 'a','abc','A_B','a_','_a','a1','1a','NULL','null','Null','TRUE','true','FALSE','END','end','End','GROUP','group','OBJECT','END_GROUP','BEGIN_GROUP','End_Object',
 '1','-1','+1','1.5','1e5','1E5','.5','5.','inf','nan','-inf','Infinity','1_0','0x10','2#101#','16#FF#','-2#1#','2#-1#','2001-01-01','2001-001','12:00','12:00:00','12:00:60','2001-01-01T12:00','2001-01-01T12:00:60Z','12:00Z','12:00+01','-','+','--','a-b','a-','-a',
 'a b',' a','a ','  ','a  b','a\nb','a\r\nb','a\tb','a-\nb','a -\n b',"it's",'say "hi"','both \' and "','/*','*/','a/*b','/* c */','#','a#b','#a','x+y','+x','a=b','=','a,b',',','(',')','(a)','{a}','<','>','<m>','a<m>',';','a;','a;b','&','a&b','%','~','|','!','[',']','^a','a:b','a.b','a/b','a*b','a@b','a\\b','$','ü','é x','\x00','\x07','\x0b','\x0c','\x7f','\x80','\xa0','Ā','€','x'*45,'x y '*15, 'x'*90, 'a '*50]
scalars=[None,True,False,0,1,-1,12345678901234567890,1.5,-0.0,0.0,1e20,1e-7,1e16,123456.789,float("1e300"),
 dt.date(2001,1,1),dt.date(1,1,1),dt.date(999,12,31),dt.date(2000,12,31),dt.date(9999,12,31),
 dt.time(12,0),dt.time(12,0,5),dt.time(0,0),dt.time(23,59,59,999999),dt.time(1,2,3,4000),dt.time(1,2,3,400000),dt.time(1,2,3,4),dt.time(12,0,tzinfo=utc),dt.time(12,0,5,tzinfo=tz(1)),dt.time(12,0,tzinfo=tz(-1)),dt.time(12,0,tzinfo=tz(5,30)),dt.time(12,0,tzinfo=tz(-5,-30)),dt.time(12,0,tzinfo=tz(13)),dt.time(12,0,tzinfo=tz(0,0)),
 dt.datetime(2001,1,1,12,0),dt.datetime(2001,1,1,0,0),dt.datetime(2001,1,1,12,0,5,500000),dt.datetime(1,1,1,0,0,1),dt.datetime(2001,1,1,12,0,tzinfo=utc),dt.datetime(2001,1,1,12,0,tzinfo=tz(2)),dt.datetime(2001,1,1,12,0,tzinfo=tz(-3,-30)),
]+strings
def norm(v, d):
    """normalise expected value by documented normalisations"""
    odl = d in ("ODL","PDS3")
    if isinstance(v,(PVLModule,PVLGroup,PVLObject,dict)):
        return (type(v).__name__ , [((k.upper() if odl else k), norm(x,d)) for k,x in v.items()])
    if isinstance(v,Quantity): return ("Q",norm(v.value,d),v.units)
    if isinstance(v,(set,frozenset)): return ("set",sorted(map(repr,(norm(x,d) for x in v))))
    if isinstance(v,list): return ("list",[norm(x,d) for x in v])
    if isinstance(v,str):
        if odl:
            ws=" \t\n\r\v\f"
            s=re.sub(r"-[\n\r\v\f][ \t\n\r\v\f]*","",v); s=re.sub(r"[ \t\n\r\v\f]+"," ",s.strip(ws)); return ("str*",s)
        return ("str",v)
    if isinstance(v,dt.datetime) or isinstance(v,dt.time):
        if v.tzinfo is None and d in("PVL","PDS3","ISIS"): v=v.replace(tzinfo=utc)
        if v.tzinfo is not None: return (type(v).__name__, v.replace(tzinfo=None).isoformat(), v.utcoffset() if isinstance(v,dt.datetime) else v.tzinfo.utcoffset(None))
        return (type(v).__name__, v.isoformat(), None)
    if isinstance(v,float): return ("float",repr(v))
    return (type(v).__name__,v)
def got(v,d):
    odl = d in ("ODL","PDS3")
    if isinstance(v,(PVLModule,PVLGroup,PVLObject)): return (type(v).__name__,[(k,got(x,d)) for k,x in v.items()])
    if isinstance(v,Quantity): return ("Q",got(v.value,d),v.units)
    if isinstance(v,(set,frozenset)): return ("set",sorted(map(repr,(got(x,d) for x in v))))
    if isinstance(v,list): return ("list",[got(x,d) for x in v])
    if isinstance(v,str): return ("str*" if odl else "str", str(v))
    if isinstance(v,(dt.datetime,dt.time)):
        if v.tzinfo is not None: return (type(v).__name__, v.replace(tzinfo=None).isoformat(), v.utcoffset() if isinstance(v,dt.datetime) else v.tzinfo.utcoffset(None))
        return (type(v).__name__, v.isoformat(), None)
    if isinstance(v,float): return ("float",repr(v))
    return (type(v).__name__,v)
res=collections.defaultdict(list)
def check(m, d, enc=None, tag=""):
    e = enc or ENC[d]()
    import copy
    exp = norm(m,d)
    try: t=e.encode(m)
    except (ValueError,TypeError) as ex: return "refused"
    except Exception as ex:
        res[(d,"ENC-EXC:"+type(ex).__name__)].append((tag,m)); return
    try: m2=strict(d).parse(t)
    except Exception as ex:
        res[(d,"LOAD-EXC:"+type(ex).__name__)].append((tag,m,t)); return
    g=got(m2,d)
    if g!=exp: res[(d,"DIFF")].append((tag,m,t,g))
    try: m3=pvl.loads(t)
    except Exception as ex:
        res[(d,"OMNI-EXC:"+type(ex).__name__)].append((tag,m,t)); return
    # omni: string folding is ODL-like for every dialect
    def omnify(x):
        if isinstance(x,tuple) and x and x[0]=="str": 
            ws=" \t\n\r\v\f"; s=re.sub(r"-[\n\r\v\f][ \t\n\r\v\f]*","",x[1]); s=re.sub(r"[ \t\n\r\v\f]+"," ",s.strip(ws)); return ("str*",s)
        if isinstance(x,tuple): return tuple(omnify(y) for y in x)
        if isinstance(x,list): return [omnify(y) for y in x]
        return x
    def star(x):
        if isinstance(x,tuple) and x and x[0]=="str": return ("str*",x[1])
        if isinstance(x,tuple): return tuple(star(y) for y in x)
        if isinstance(x,list): return [star(y) for y in x]
        return x
    exp3=omnify(exp) 
    # default tz for omni: utc (PVLGrammar default)
    g3=star(got(m3,"ODL" if d in("ODL","PDS3") else "PVL"))
    if g3!=exp3 and d!="ODL": res[(d,"OMNI-DIFF")].append((tag,m,t,g3,exp3))
for d in ENC:
    for v in scalars:
        check(PVLModule([("k",v)]),d,tag="top")
        check(PVLModule([("k",[v])]),d,tag="seq1")
        check(PVLModule([("k",[v,v])]),d,tag="seq2")
        try: check(PVLModule([("k",{v})]),d,tag="set")
        except TypeError: pass
        if isinstance(v,(int,float,str)) and not isinstance(v,bool): check(PVLModule([("k",Quantity(v,"m"))]),d,tag="quant")
for k,v in sorted(res.items(), key=lambda kv: kv[0]):
    print("=====",k,len(v))
    for x in v[:60]: print("   ",repr(x)[:300])
