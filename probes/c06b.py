import warnings, itertools, collections, sys, time, multiprocessing as mp
warnings.simplefilter("ignore")
import pvl
from pvl.grammar import *; from pvl.decoder import *; from pvl.parser import *
from pvl.lexer import lexer as real_lexer
from pvl.exceptions import LexerError, ParseError
class Budget(BaseException): pass
class CountingTokens:
    def __init__(self, gen, budget): self.gen=gen; self.n=0; self.budget=budget; self.pulled=0
    def _tick(self):
        self.n+=1
        if self.n>self.budget: raise Budget()
    def __iter__(self): return self
    def __next__(self): self._tick(); return next(self.gen)
    def send(self,v): self._tick(); return self.gen.send(v)
    def throw(self,*a): return self.gen.throw(*a)
    def close(self): return self.gen.close()
def mk_lexer():
    def lx(s,g=None,d=None):
        return CountingTokens(real_lexer(s,g=g,d=d), 200+60*len(s))
    return lx
def parsers():
    lx=mk_lexer()
    g=PVLGrammar(); yield "PVL",PVLParser(grammar=g,decoder=PVLDecoder(grammar=g),lexer_fn=lx)
    g=ODLGrammar(); yield "ODL",ODLParser(grammar=g,decoder=ODLDecoder(grammar=g),lexer_fn=lx)
    g=PDSGrammar(); yield "PDS3",ODLParser(grammar=g,decoder=PDSLabelDecoder(grammar=g),lexer_fn=lx)
    g=ISISGrammar(); yield "ISIS",OmniParser(grammar=g,decoder=OmniDecoder(grammar=g),lexer_fn=lx)
    yield "OMNI",OmniParser(lexer_fn=lx)
P=None
def work(args):
    global P
    if P is None: P=list(parsers())
    alpha,L,first=args
    res=collections.Counter(); ex={}
    for tup in itertools.product(alpha,repeat=L-1):
        s=first+"".join(tup)
        for name,p in P:
            try:
                p.errors=[]
                p.parse(s); r="ok"
            except (LexerError,ParseError): r="doc"
            except Budget: r="SPIN"
            except RecursionError: r="RecursionError"
            except Exception as e: r=type(e).__name__
            res[name,r]+=1
            if r not in("ok","doc"):
                ex.setdefault((name,r),[])
                if len(ex[name,r])<8: ex[name,r].append(s)
    return res,ex
if __name__=="__main__":
    alpha=sys.argv[1].encode().decode("unicode_escape"); N=int(sys.argv[2])
    t0=time.time()
    tot=collections.Counter(); exs={}
    with mp.Pool(16) as pool:
        for res,ex in pool.imap_unordered(work,[(alpha,N,c) for c in alpha]):
            tot.update(res)
            for k,v in ex.items(): exs.setdefault(k,[]).extend(v)
    print("alpha",repr(alpha),"len",N,"n",sum(tot.values()),"t",time.time()-t0)
    for k in sorted(tot): print(k,tot[k],sorted(exs.get(k,[]),key=len)[:10])
