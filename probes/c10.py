import warnings, itertools, collections, copy, pickle
warnings.simplefilter("ignore")
from pvl.collections import OrderedMultiDict, PVLModule, PVLGroup, PVLObject
K=["a","b"]; V=[1,2]
def conc(o):
    return (tuple(list.__iter__(list(o)) if False else list(iter(o))), tuple(sorted((k,tuple(v)) for k,v in dict.items(o))))
def ops():
    for k in K:
        for v in V:
            yield ("append",k,v); yield ("setitem",k,v); yield ("setdefault",k,v)
            yield ("update",k,v)
            for i in range(-1,4): yield ("insert",i,k,v)
            for k2 in K:
                yield ("insert_after",k2,k,v); yield ("insert_before",k2,k,v)
        yield ("delitem",k); yield ("popk",k); yield ("popall",k); yield ("discard",k); yield("popkd",k)
    yield ("pop",); yield ("popitem",); yield ("clear",)
    for i in range(-1,3): yield("delidx",i)
def apply_impl(o,op):
    n=op[0]
    if n=="append": return o.append(op[1],op[2])
    if n=="setitem": o[op[1]]=op[2]; return None
    if n=="setdefault": return o.setdefault(op[1],op[2])
    if n=="update": return o.update([(op[1],op[2])])
    if n=="insert": return o.insert(op[1],op[2],op[3])
    if n=="insert_after": return o.insert_after(op[1],(op[2],op[3]))
    if n=="insert_before": return o.insert_before(op[1],(op[2],op[3]))
    if n=="delitem": del o[op[1]]; return None
    if n=="popk": return o.pop(op[1])
    if n=="popkd": return o.pop(op[1],"D")
    if n=="popall": return o.popall(op[1])
    if n=="discard": return o.discard(op[1])
    if n=="pop": return o.pop()
    if n=="popitem": return o.popitem()
    if n=="clear": return o.clear()
    if n=="delidx": del o[op[1]]; return None
def apply_model(L,op):
    n=op[0]
    keys=[k for k,_ in L]
    if n=="append": L.append((op[1],op[2])); return None
    if n in("setitem","update"):
        k,v=op[1],op[2]
        if k not in keys: L.append((k,v)); return None
        i=keys.index(k); L[:]=L[:i]+[(k,v)]+[p for p in L[i+1:] if p[0]!=k]; return None
    if n=="setdefault":
        k,v=op[1],op[2]
        if k in keys: return L[keys.index(k)][1]
        L.append((k,v)); return v
    if n=="insert":
        L.insert(op[1],(op[2],op[3])); return None
    if n in("insert_after","insert_before"):
        if op[1] not in keys: raise KeyError
        i=keys.index(op[1]); L.insert(i+1 if n=="insert_after" else i,(op[2],op[3])); return None
    if n in("delitem","popk","popall","discard","popkd"):
        k=op[1]
        if k not in keys:
            if n=="discard": return None
            if n=="popkd": return "D"
            raise KeyError
        v=L[keys.index(k)][1]; L[:]=[p for p in L if p[0]!=k]
        return v if n in("popk","popall","popkd") else None
    if n in("pop","popitem"):
        if not L: raise KeyError
        return L.pop()
    if n=="clear": L.clear(); return None
    if n=="delidx": raise NotImplementedError
def observe(o):
    out={}
    out["iter"]=list(o); out["len"]=len(o)
    out["keys"]=list(o.keys()); out["values"]=list(o.values()); out["items"]=list(o.items())
    out["idx"]=[o[i] for i in range(len(o))]; out["slice"]=o[0:len(o)]
    for k in K+["z"]:
        out["in",k]=k in o
        try: out["get",k]=o[k]
        except KeyError: out["get",k]="KeyError"
        out["getd",k]=o.get(k,"D")
        try: out["getall",k]=o.getall(k)
        except KeyError: out["getall",k]="KeyError"
        try: out["ki",k]=o.key_index(k)
        except KeyError: out["ki",k]="KeyError"
    return out
def observe_model(L):
    out={}
    out["iter"]=list(L); out["len"]=len(L)
    out["keys"]=[k for k,_ in L]; out["values"]=[v for _,v in L]; out["items"]=list(L)
    out["idx"]=list(L); out["slice"]=list(L)
    for k in K+["z"]:
        vs=[v for kk,v in L if kk==k]
        out["in",k]=bool(vs)
        out["get",k]=vs[0] if vs else "KeyError"
        out["getd",k]=vs[0] if vs else "D"
        out["getall",k]=vs if vs else "KeyError"
        out["ki",k]=[kk for kk,_ in L].index(k) if vs else "KeyError"
    return out
seen={(): []}; frontier=collections.deque([[]]); bad=collections.Counter(); ex={}
trans=0
MAXLEN=3
while frontier:
    hist=frontier.popleft()
    for op in ops():
        o=OrderedMultiDict(); L=[]
        for h in hist: apply_impl(o,h); apply_model(L,h)
        try:
            try: rm=("ok",apply_model(L,op))
            except KeyError: rm=("KeyError",)
            except IndexError: rm=("IndexError",)
        except NotImplementedError:
            try:
                apply_impl(o,op); r=("ok",)
            except Exception as e: r=(type(e).__name__,)
            bad["delidx:"+r[0]]+=1; ex.setdefault("delidx:"+r[0],(hist,op,list(o))); continue
        try: ri=("ok",apply_impl(o,op))
        except Exception as e: ri=(type(e).__name__,)
        trans+=1
        if ri!=rm: bad[op[0]+":ret"]+=1; ex.setdefault(op[0]+":ret",(hist,op,ri,rm))
        try: oi=observe(o)
        except Exception as e:
            bad[op[0]+':observe-crash']+=1; ex.setdefault(op[0]+':observe-crash',(hist,op,repr(e))); continue
        om=observe_model(L)
        if oi!=om:
            d=[k for k in oi if oi[k]!=om[k]]
            bad[op[0]+":state"]+=1; ex.setdefault(op[0]+":state",(hist,op,[(k,oi[k],om[k]) for k in d][:4]))
            continue
        st=tuple(L)
        if st not in seen and len(L)<=MAXLEN:
            seen[st]=hist+[op]; frontier.append(hist+[op])
print("states",len(seen),"trans",trans)
for k,v in bad.items(): print(k,v,ex[k])
