import re, zlib, sys
data=open(sys.argv[1],'rb').read()
out=[]
for m in re.finditer(rb'stream\r?\n(.*?)endstream', data, re.S):
    s=m.group(1)
    try: d=zlib.decompress(s)
    except Exception: continue
    # extract text in () Tj / TJ
    txt=[]
    for t in re.finditer(rb'\[(.*?)\]\s*TJ|\((.*?)\)\s*Tj', d, re.S):
        if t.group(1) is not None:
            parts=re.findall(rb'\(((?:\\.|[^\\)])*)\)', t.group(1))
            txt.append(b"".join(parts))
        else: txt.append(t.group(2))
    if txt: out.append(b" ".join(txt))
sys.stdout.buffer.write(b"\n".join(out))
