import warnings, itertools, datetime as dt, collections, calendar
warnings.simplefilter("ignore")
from pvl.grammar import *; from pvl.decoder import *
utc=dt.timezone.utc
DEC={"PVL":PVLDecoder(PVLGrammar()),"ODL":ODLDecoder(ODLGrammar()),"PDS3":PDSLabelDecoder(PDSGrammar()),"ISIS":OmniDecoder(ISISGrammar()),"OMNI":OmniDecoder(OmniGrammar())}
years=[1,9,10,99,100,999,1000,1582,1900,1999,2000,2001,2004,2100,9999]
def dates():
    for y in years:
        leap=calendar.isleap(y)
        for (m,d) in [(1,1),(1,31),(2,28),(2,29),(3,1),(4,30),(12,31),(10,10)]:
            if m==2 and d==29 and not leap: continue
            D=dt.date(y,m,d)
            yield f"{y:04d}-{m:02d}-{d:02d}", D
            yield f"{y:04d}-{D.timetuple().tm_yday:03d}", D
        if leap: yield f"{y:04d}-366", dt.date(y,12,31)
def times():
    for H in (0,1,9,10,12,23):
        for M in (0,1,9,10,59):
            yield f"{H:02d}:{M:02d}", (H,M,0,0), "HM"
            for S in (0,1,9,10,59):
                yield f"{H:02d}:{M:02d}:{S:02d}", (H,M,S,0), "HMS"
                if (H,M) in((0,0),(23,59),(12,10)):
                  for f,us in (("0",0),("1",100000),("5",500000),("001",1000),("010",10000),("100",100000),("999",999000),("0001",100),("000001",1),("999999",999999),("123456",123456),("1234",123400),("12",120000)):
                    yield f"{H:02d}:{M:02d}:{S:02d}.{f}", (H,M,S,us), "HMSf"
zones=[("",None),("Z",0)]+[(f"{s}{h:02d}",(1 if s=="+" else -1)*h*60) for s in "+-" for h in (0,1,5,9,10,12)]+[(f"{s}{h:02d}:{m:02d}",(1 if s=="+" else -1)*(h*60+m)) for s in "+-" for h in (0,5,12) for m in (0,30,45)]+[("+1",60),("-9",-540),("+5:30",330)]
def expect(dialect, kind, base, zone_txt, zone_min, us):
    """returns expected python value or 'REJECT' or 'SKIP'"""
    if zone_txt not in ("","Z"):
        if dialect in("PVL",): return "NOTDT"   # not a PVL datetime (string or whatever)
        if dialect=="PDS3": return "REJECT"
    if dialect=="PDS3" and us%1000: return "REJECT"
    if kind=="date": return base
    if zone_txt=="":
        tzinfo = None if dialect=="ODL" else utc
    else: tzinfo = dt.timezone(dt.timedelta(minutes=zone_min))
    return base.replace(tzinfo=tzinfo)
bad=collections.Counter(); ex={}
n=0
def run(text, dialect, exp):
    global n; n+=1
    d=DEC[dialect]
    try: got=d.decode_datetime(text)
    except ValueError: got="REJECT"
    except Exception as e: got="EXC:"+type(e).__name__
    if exp=="NOTDT":
        ok = got=="REJECT" or isinstance(got,str)
    elif exp=="REJECT": ok = got=="REJECT"
    else:
        ok = type(got)==type(exp) and got==exp and (getattr(got,"tzinfo",None) is None)==(getattr(exp,"tzinfo",None) is None) and (got.utcoffset()==exp.utcoffset() if isinstance(got,dt.datetime) else True) and (isinstance(got,dt.date) or got.tzinfo is None or got.tzinfo.utcoffset(None)==exp.tzinfo.utcoffset(None))
    if not ok:
        k=(dialect, "exp="+ (exp if isinstance(exp,str) else type(exp).__name__), "got="+(got if isinstance(got,str) and got.startswith(("REJ","EXC")) else type(got).__name__))
        bad[k]+=1; ex.setdefault(k,[]); 
        if len(ex[k])<6: ex[k].append((text,got))
for dialect in DEC:
    for txt,D in dates():
        run(txt,dialect,D)
        for z,_ in (("Z",0),): run(txt+z,dialect,D if dialect!="X" else None)
    for ttxt,(H,M,S,us),k in times():
        for z,zm in zones:
            T=dt.time(H,M,S,us)
            run(ttxt+z,dialect,expect(dialect,"time",T,z,zm,us))
    for dtxt,D in list(dates())[::7]:
        for ttxt,(H,M,S,us),k in list(times())[::5]:
            for z,zm in zones[::3]:
                DT=dt.datetime(D.year,D.month,D.day,H,M,S,us)
                run(dtxt+"T"+ttxt+z,dialect,expect(dialect,"datetime",DT,z,zm,us))
    # leap seconds
    for txt in ("23:59:60","23:59:60Z","23:59:60.5","2016-12-31T23:59:60","2016-366T23:59:60Z","2016-12-31T23:59:60.123Z"):
        exp = "LEAPSTR" if dialect in("PVL",) else ("REJECT" if dialect in("ODL","PDS3") else "ANY")
        try: got=DEC[dialect].decode_datetime(txt)
        except ValueError: got="REJECT"
        if exp=="LEAPSTR" and not (isinstance(got,str) and got==txt): bad[(dialect,"leap",repr(got))]+=1
        if exp=="REJECT" and got!="REJECT": bad[(dialect,"leap-should-reject",repr(got))]+=1; ex[(dialect,"leap-should-reject",repr(got))]=[txt]
        if exp=="ANY": print(dialect,"leap",txt,"->",repr(got))
print("n",n)
for k in sorted(bad): print(k,bad[k],ex.get(k))
