import warnings, itertools, collections, sys, multiprocessing as mp
warnings.simplefilter("ignore")
from c06b import parsers, Budget
from refpda import *
from c05b import ALPHA, conv, normset
from pvl.exceptions import LexerError, ParseError
T={t[1]:t for t in ALPHA}
def tk(s): return [T[x] for x in s.split()]
DOCS=[ "a = 1 b = 1 END", "a = ( 1 , 1 ) b = { 1 } END", "a = 1 <m> ; b = \"s\" ; END ;",
 "GROUP = a b = 1 END_GROUP = a END", "GROUP = a b = 1 END_GROUP END", "OBJECT = a b = 1 GROUP = b a = 1 END_GROUP = b END_OBJECT = a b = 1 END",
 "OBJECT = a GROUP = b a = 1 END_GROUP END_OBJECT", "a = ( ( 1 ) , ( 1 , 1 ) ) END", "a = { 1 , \"s\" } <m> b = 1", "GROUP = a a = ( 1 , 1 ) <m> ; END_GROUP = a ; b = 1 ;",
 "/*c*/ a = /*c*/ 1 /*c*/ b = 1 /*c*/ END", "OBJECT = a OBJECT = b b = 1 END_OBJECT = b a = 1 END_OBJECT = a END"]
def damages(toks):
    n=len(toks)
    for i in range(n):
        yield ("del",i), toks[:i]+toks[i+1:]
        yield ("dup",i), toks[:i+1]+toks[i:]
        if i+1<n: yield ("swap",i), toks[:i]+[toks[i+1],toks[i]]+toks[i+2:]
        for r in ALPHA:
            if r!=toks[i]: yield ("rep",i,r[1]), toks[:i]+[r]+toks[i+1:]
        yield ("trunc",i), toks[:i]
P=None
def work(di):
    global P
    if P is None: P=dict(parsers())
    base=tk(DOCS[di]); res=collections.Counter(); ex={}
    seen=set()
    for d1,t1 in damages(base):
        level=[(d1,t1)]
        if len(base)<=12:
            level+= [((d1,d2),t2) for d2,t2 in damages(t1)]
        for dd,toks in level:
            text=" ".join(t[1] for t in toks)
            if text in seen: continue
            seen.add(text)
            for d in ("PVL","ODL","OMNI"):
                try: ref=("WELL",[(k,normset(v)) for k,v in parse(toks,omni=(d=="OMNI"),odl=(d=="ODL"))])
                except Ill as e: ref=("ILL",str(e)[:22])
                except Unspec: ref=("UNSPEC",)
                p=P[d]
                try: p.errors=[]; m=p.parse(text); got=("OK",[(k,conv(v)) for k,v in m])
                except Budget: got=("SPIN",)
                except (LexerError,ParseError): got=("RAISE",)
                except Exception as e: got=("EXC",type(e).__name__)
                if ref[0]=="UNSPEC": k=None
                elif ref[0]=="WELL": k=None if got==("OK",ref[1]) else (d,"WELL-but",got[0] if got[0]!="OK" else "DIFFERENT")
                else: k=None if got[0]=="RAISE" else (d,"ILL-but",got[0]+(":"+got[1] if got[0]=="EXC" else ""),ref[1])
                res[d,ref[0]]+=1
                if k:
                    res[k]+=1; ex.setdefault(k,[])
                    if len(ex[k])<4: ex[k].append((text, got[1] if got[0]=="OK" else None))
    return res,ex
if __name__=="__main__":
    tot=collections.Counter(); exs={}
    with mp.Pool(12) as pool:
        for res,ex in pool.imap_unordered(work,range(len(DOCS))):
            tot.update(res)
            for k,v in ex.items(): exs.setdefault(k,[]).extend(v)
    for k in sorted(tot,key=str): print(k,tot[k],sorted(exs.get(k,[]),key=lambda x:len(x[0]))[:3])
