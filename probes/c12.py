import warnings, itertools, collections, datetime as dt
warnings.simplefilter("ignore")
import pvl
from pvl.collections import *; from pvl.encoder import *
from r5 import check, Bad
ENC={"PVL":PVLEncoder,"ODL":ODLEncoder,"PDS3":PDSLabelEncoder,"ISIS":ISISEncoder}
DEF={"PVL":dict(indent=2,width=80,newline="\n",aggregation_end=True,end_delimiter=True),"ODL":dict(indent=2,width=80,newline="\r\n",aggregation_end=True,end_delimiter=False),"PDS3":dict(indent=2,width=80,newline="\r\n",aggregation_end=True,end_delimiter=False),"ISIS":dict(indent=2,width=80,newline="\n",aggregation_end=True,end_delimiter=False)}
vals=[1,-2.5,"abc","Abc_d","a b","it's",'say "x"',"line1\nline2","x"*50,"w "*30,[1,2,3],list(range(40)),["a b"]*10,["ab"]*30,{1,2},Quantity(1.5,"m"),None,True,dt.date(2001,1,1),dt.datetime(2001,1,1,12,0,tzinfo=dt.timezone.utc),"", "a\tb","NULL"]
keys=["a","key_b","LONGER_KEY_NAME","^ptr","ns:k"]
mods=[]
for v in vals:
    mods.append(PVLModule([("a",v)]))
    mods.append(PVLModule([("a",1),("longer_key",v),("b",2)]))
    mods.append(PVLModule([("a",1),("g",PVLGroup([("x",v),("yy",2)])),("o",PVLObject([("p",PVLObject([("deep_key",v),("q",1)]))])),("b",v)]))
res=collections.Counter(); ex={}
n=0
for d in ENC:
    cfgs=[{}]+[{"indent":i} for i in (0,4)]+[{"width":w} for w in (20,30,40)]+[{"aggregation_end":False}]
    if d!="PDS3": cfgs+= [{"end_delimiter":not DEF[d]["end_delimiter"]},{"newline":"\r\n" if DEF[d]["newline"]=="\n" else "\n"}]
    for c in cfgs:
        cfg=dict(DEF[d]); cfg.update(c)
        for m in mods:
            import copy
            mm=copy.deepcopy(m) if False else PVLModule(list(m))
            try: t=ENC[d](**c).encode(mm)
            except (ValueError,TypeError): res[d,"refuse"]+=1; continue
            n+=1
            try: check(t,mm,d,cfg); res[d,"ok"]+=1
            except Bad as b:
                k=(d,b.args[0]); res[k]+=1; ex.setdefault(k,[])
                if len(ex[k])<3: ex[k].append((c,repr(b.args[1])[:150],t[:200]))
print(n)
for k in sorted(res,key=str): print(k,res[k]); [print("      ",e) for e in ex.get(k,[])]
