import warnings
warnings.simplefilter("ignore")
import pvl
from decimal import Decimal
from pvl.decoder import *; from pvl.parser import *; from pvl.grammar import *
exec(open("c19.py").read().split("# C18")[1].split("t=\"a = 1.50")[0])
tp="a = 1.50\nb = (1.5, 2, (3.25, 4)) <m>\nc = {1.5, 2}\nd = 1.5 <m>\ne = 3 <s>\nGROUP = g\n f = 2.50\n OBJECT = o\n  h = (1.0, 1) \n  i = 1.0E3 <km>\n END_OBJECT\nEND_GROUP\nj = -1.e-3\nk = 0.10 <m>\nl = ((1.5 <m>, 2 <s>), {3.0 <k>})\nEND"
to="a = 1.50\nb = (1.5, 2, (3.25, 4))\nc = {1.5, 2}\nd = 1.5 <m>\ne = 3 <s>\nGROUP = g\n f = 2.50\n OBJECT = o\n  h = (1.0, 1) \n  i = 1.0E3 <km>\n END_OBJECT\nEND_GROUP\nj = -1.e-3\nk = 0.10 <m>\nl = (1.5 <m>, 2 <s>)\nEND"
def walk(v,path=""):
    if hasattr(v,"items"):
        yield path,type(v).__name__
        for k,x in v.items(): yield from walk(x,path+"/"+k)
    elif isinstance(v,(list,set,frozenset)):
        yield path,type(v).__name__
        for i,x in enumerate(v): yield from walk(x,path+"[]")
    elif isinstance(v,Q): 
        yield path,"Q"; yield from walk(v.v,path+".v")
    elif isinstance(v,pvl.Quantity):
        yield path,"Quantity"; yield from walk(v.value,path+".v")
    else: yield path,type(v).__name__+":"+repr(v)
for name,t,kw in [("omni",tp,dict(decoder=OmniDecoder(grammar=OmniGrammar(),real_cls=Decimal,quantity_cls=Q),module_class=M,group_class=Gp,object_class=Ob)),
                ("pvl",tp,dict(parser=PVLParser(grammar=PVLGrammar(),decoder=PVLDecoder(real_cls=Decimal,quantity_cls=Q),module_class=M,group_class=Gp,object_class=Ob))),
                ("odl",to,dict(parser=ODLParser(grammar=ODLGrammar(),decoder=ODLDecoder(real_cls=Decimal,quantity_cls=Q),module_class=M,group_class=Gp,object_class=Ob))),
                ("pds",to,dict(parser=ODLParser(grammar=PDSGrammar(),decoder=PDSLabelDecoder(quantity_cls=Q),module_class=M,group_class=Gp,object_class=Ob)))]:
    try:
        m=pvl.loads(t,**kw); print(name,sorted(set(walk(m)),key=str))
    except Exception as e: print(name,"EXC",type(e).__name__,str(e)[:300])
