import warnings, io, sys, json, os, tempfile, contextlib
warnings.simplefilter("ignore")
import pvl, pvl.new
from pvl.encoder import *
from decimal import Decimal
texts=["a = 1\nb = 2\na = 3\nEND","GROUP = g\n a = 1\n a = 2\n OBJECT = o\n  x = (1,2)\n END_OBJECT\nEND_GROUP\nEND","a =\nb = 1","GROUP = g\n x = 1\nEND_GROUP\nGROUP = g\n y = 2\nEND_GROUP\nEND","a = 1 <m>\nb = {1,2}\nc = 'x'\nEND", "GROUP = g\n a = 1\nEND_GROUP = h"]
def items(m):
    out=[]
    it = m.items() 
    for k,v in it:
        out.append((k, items(v) if hasattr(v,"items") else v))
    return out
for t in texts:
    try: a=pvl.loads(t); ra=("ok",items(a))
    except Exception as e: ra=("exc",type(e).__name__); a=None
    try: b=pvl.new.loads(t); rb=("ok",items(b))
    except Exception as e: rb=("exc",type(e).__name__); b=None
    print(repr(t)[:50], "SAME" if ra==rb else ("DIFF",ra,rb), type(b).__name__ if b is not None else "")
    if a is not None and b is not None:
        for E in (None,PVLEncoder,ODLEncoder,ISISEncoder,PDSLabelEncoder):
            try: sa=pvl.dumps(a) if E is None else pvl.dumps(a,encoder=E())
            except Exception as e: sa="EXC "+type(e).__name__
            try: sb=pvl.new.dumps(b) if E is None else pvl.new.dumps(b,encoder=E(group_class=pvl.new.PVLGroupNew,object_class=pvl.new.PVLObjectNew))
            except Exception as e: sb="EXC "+type(e).__name__+str(e)[:80]
            try: sc=pvl.new.dumps(b) if E is None else pvl.new.dumps(b,encoder=E())
            except Exception as e: sc="EXC "+type(e).__name__+str(e)[:80]
            print("    ",E.__name__ if E else "default", "same" if sa==sb else ("DIFF",sa,sb), "| plain-encoder:", "same" if sa==sc else ("DIFF",sc[:200]))
# C18
class MyReal(float): pass
class Q:
    def __init__(s,v,u): s.v=v; s.u=u
    def __repr__(s): return f"Q({s.v!r},{s.u!r})"
    def __hash__(s): return hash((repr(s.v),s.u))
    def __eq__(s,o): return isinstance(o,Q) and (s.v,s.u)==(o.v,o.u)
class M(pvl.PVLModule): pass
class Gp(pvl.PVLGroup): pass
class Ob(pvl.PVLObject): pass
from pvl.decoder import *; from pvl.parser import *; from pvl.grammar import *
t="a = 1.50\nb = (1.5, 2, (3.25, 4)) <m>\nc = {1.5, 2}\nd = 1.5 <m>\ne = 3 <s>\nGROUP = g\n f = 2.50\n OBJECT = o\n  h = (1.0, 1) \n  i = 1.0E3 <km>\n END_OBJECT\nEND_GROUP\nj = -1.e-3\nk = +.5\nEND"
def walk(v,path=""):
    if hasattr(v,"items"):
        yield path,type(v).__name__
        for k,x in v.items(): yield from walk(x,path+"/"+k)
    elif isinstance(v,(list,set,frozenset)):
        yield path,type(v).__name__
        for i,x in enumerate(v): yield from walk(x,path+"[]")
    elif isinstance(v,Q): 
        yield path,"Q"; yield from walk(v.v,path+".v")
    elif isinstance(v,pvl.Quantity):
        yield path,"Quantity"; yield from walk(v.value,path+".v")
    else: yield path,type(v).__name__+":"+repr(v)
for name,kw in [("omni",dict(decoder=OmniDecoder(real_cls=Decimal,quantity_cls=Q),module_class=M,group_class=Gp,object_class=Ob)),
                ("pvl",dict(parser=PVLParser(grammar=PVLGrammar(),decoder=PVLDecoder(real_cls=Decimal,quantity_cls=Q),module_class=M,group_class=Gp,object_class=Ob))),
                ("odl",dict(parser=ODLParser(grammar=ODLGrammar(),decoder=ODLDecoder(real_cls=Decimal,quantity_cls=Q),module_class=M,group_class=Gp,object_class=Ob)))]:
    try:
        m=pvl.loads(t,**kw); print(name,sorted(set(walk(m)),key=str))
    except Exception as e: print(name,"EXC",type(e).__name__,str(e)[:200])
