import warnings, itertools, collections, sys, datetime as dt
warnings.simplefilter("ignore")
from pvl.grammar import *; from pvl.decoder import *; from pvl.encoder import *; from pvl.token import Token
CFG={"PVL":(PVLGrammar(),PVLDecoder,PVLEncoder),"ODL":(ODLGrammar(),ODLDecoder,ODLEncoder),"PDS3":(PDSGrammar(),PDSLabelDecoder,PDSLabelEncoder),"ISIS":(ISISGrammar(),PVLDecoder,ISISEncoder),"OMNI":(OmniGrammar(),OmniDecoder,None)}
alpha="aeEnN1023-+.:#_TZ'\" =/*"
N=int(sys.argv[1])
bad=collections.Counter(); ex={}
def note(k,s):
    bad[k]+=1; ex.setdefault(k,[])
    if len(ex[k])<12: ex[k].append(s)
extra=["NULL","null","Null","TRUE","true","FALSE","false","END","end","GROUP","group","OBJECT","END_GROUP","BEGIN_OBJECT","inf","nan","Inf","NaN","infinity","-inf","1_0","1__0","0x10","0b1","1e5","1E5","1.e5","2001-366","2000-366","2001-01-01","2001-1-1","12:00","12:0","1:00","24:00","12:60","12:00:60","2#101#","-2#101#","2#-101#","+2#1#","3#12#","16#fF#","17#1#","1#0#","2#2#","2##","#","2#","١٢","１２","²","1.5.2","..","1e","e1","+","-","+-1","--1","",".","+.","1.","'","''","'a","a'","\"\"","\"a","'a\"","<m>","(","{","a b","a\tb","a\nb","/*","*/","a/*b","a*/b","a#b","#a","a+b","+a","a+","END_GROUP","End","e"]
for d,(g,D,E) in CFG.items():
    dec=D(grammar=g) if d!="PDS3" else D(grammar=g)
    enc=E(grammar=g,decoder=dec) if E else None
    strs=[ "".join(t) for L in range(0,N+1) for t in itertools.product(alpha,repeat=L)]+extra
    for s in strs:
        tok=Token(s,grammar=g,decoder=dec)
        try: v=dec.decode_simple_value(s); cls=("none" if v is None else "bool" if isinstance(v,bool) else "int" if isinstance(v,int) else "real" if isinstance(v,float) else "dt" if isinstance(v,(dt.date,dt.time)) else "str")
        except ValueError: v=None; cls="notvalue"
        except Exception as e: note((d,"decode EXC "+type(e).__name__),s); continue
        preds={}
        for p in ("is_quoted_string","is_unquoted_string","is_numeric","is_decimal","is_non_decimal","is_datetime","is_simple_value","is_parameter_name","is_string"):
            try: preds[p]=getattr(tok,p)()
            except Exception as e: preds[p]="EXC "+type(e).__name__; note((d,p+" EXC "+type(e).__name__),s)
        # consistency
        if preds["is_simple_value"]!=(cls!="notvalue"): note((d,"is_simple_value!=decodable",cls),s)
        isq = preds["is_quoted_string"]
        if cls=="str":
            if isq and preds["is_unquoted_string"]: note((d,"both quoted and unquoted"),s)
            if not isq and not preds["is_unquoted_string"]: note((d,"decodes str but is_unquoted_string False"),s)
            if not isq and (preds["is_numeric"] or (preds["is_datetime"])): note((d,"str but numeric/datetime pred"),s)
        if cls in("int","real") and not preds["is_numeric"]: note((d,"num but not is_numeric"),s)
        if cls in("int","real","dt","none","bool") and preds["is_unquoted_string"]: note((d,cls+" but is_unquoted_string True"),s)
        if cls in("int","real","dt") and preds["is_parameter_name"]: note((d,cls+" but is_parameter_name True"),s)
        if cls=="dt" and not preds["is_datetime"]: note((d,"dt but not is_datetime"),s)
        if cls=="notvalue" and (preds["is_unquoted_string"] is True): note((d,"notvalue but is_unquoted_string"),s)
        if cls=="notvalue" and (preds["is_parameter_name"] is True): note((d,"notvalue but is_parameter_name"),s)
        # encoder
        if enc is not None:
            try: es=enc.encode_string(s)
            except ValueError: es=None
            except Exception as e: note((d,"encode_string EXC "+type(e).__name__),s); es=None
            if es is not None:
                if es==s:  # unquoted
                    try: back=dec.decode_simple_value(es)
                    except ValueError: back="NOTVALUE"
                    if not (isinstance(back,str) and back==s): note((d,"unquoted write does not read back identical"),s)
                    if not tok.is_unquoted_string(): note((d,"enc unquoted but token says not unquoted"),s)
                else:
                    try: back=dec.decode_simple_value(es)
                    except ValueError: back="NOTVALUE"
                    exp=s
                    if d in("ODL","PDS3"):
                        import re
                        exp=re.sub(r"[ \t\n\r\v\f]+"," ",re.sub(r"-[\n\r\v\f][ \t\n\r\v\f]*","",s).strip(" \t\n\r\v\f"))
                    if back!=exp: note((d,"quoted write does not read back"),s)
for k in sorted(bad): print(k,bad[k],ex[k])
