import warnings, itertools, collections
warnings.simplefilter("ignore")
import pvl
from c06b import parsers, Budget
from pvl.exceptions import LexerError, ParseError
# token lists: (text, kind). kind: W word-like (name/unquoted/number/keyword), P punctuation '=', ',', '(', ')', '{', '}', ';', Q quoted, U units
docs=[
 [("a","W"),("=","P"),("1","W"),("b","W"),("=","P"),("x","W"),("END","W")],
 [("a","W"),("=","P"),("(","P"),("1","W"),(",","P"),("'q r'","Q"),(",","P"),("-2.5","W"),(")","P"),(";","P"),("b","W"),("=","P"),("{","P"),("x","W"),(",","P"),("y","W"),("}","P"),("END","W")],
 [("a","W"),("=","P"),("1.5","W"),("<m/s>","U"),("b","W"),("=","P"),('"s"',"Q"),("c","W"),("=","P"),("2001-01-01T12:00:00","W"),(";","P"),("END","W"),(";","P")],
 [("GROUP","W"),("=","P"),("g","W"),("x","W"),("=","P"),("16#FF#","W"),("OBJECT","W"),("=","P"),("o","W"),("y","W"),("=","P"),("(","P"),("(","P"),("1","W"),(")","P"),(",","P"),("(","P"),("2","W"),(")","P"),(")","P"),("END_OBJECT","W"),("=","P"),("o","W"),("END_GROUP","W"),("z","W"),("=","P"),("NULL","W"),("END","W")],
 [("a","W"),("=","P"),("(","P"),("1","W"),("<m>","U"),(",","P"),("2","W"),("<s>","U"),(")","P"),("b","W"),("=","P"),("x","W"),("END","W")],
]
seps_all=[""," ","\t","\n","\r\n","\f","\v","  ","\n\n","/* c */"," /* c */ ","/**/","/* a\nb */","/* = , ( */"," # c\n","\n# c\n"," # c = (\n", "/* c */\n"]
def need_sep(a,b):
    # separator required between two W tokens, between W/Q/U and W?
    ka,kb=a[1],b[1]
    if ka=="W" and kb=="W": return True
    if ka in("Q","U") and kb=="W": return True   # conservative: require
    if ka=="W" and kb=="Q": return True
    if ka=="Q" and kb=="Q": return True
    return False
def render(doc,seps): return "".join(t[0]+s for t,s in zip(doc,seps))
P=list(parsers())
res=collections.Counter(); ex={}
for di,doc in enumerate(docs):
    n=len(doc)
    canon=[" "]*(n-1)+[""]
    base={}
    for name,p in P:
        try: p.errors=[]; base[name]=("ok",repr(list(p.parse(render(doc,canon)))))
        except Exception as e: base[name]=("exc",type(e).__name__)
    for gap in range(n):
        for s in seps_all:
            if gap==n-1 and False: pass
            if s=="" and gap<n-1 and need_sep(doc[gap],doc[gap+1]): continue
            seps=list(canon); seps[gap]=s
            text=render(doc,seps)
            for name,p in P:
                if "#" in s and name not in("ISIS","OMNI"): continue
                if base[name][0]!="ok": continue
                try: p.errors=[]; r=("ok",repr(list(p.parse(text))))
                except Budget: r=("SPIN",)
                except Exception as e: r=("exc",type(e).__name__,str(e)[:60])
                if r!=base[name]:
                    a=doc[gap][0]; b=doc[gap+1][0] if gap<n-1 else "<EOF>"
                    k=(name,r[0] if r[0]!="exc" else r[1], repr(s), doc[gap][1]+"|"+(doc[gap+1][1] if gap<n-1 else "$"))
                    res[k]+=1; ex.setdefault(k,[]).append((a,b))
    print("doc",di,{k:v[0] for k,v in base.items()})
for k in sorted(res): print(k,res[k],ex[k][:8])
