import warnings, io, os, pathlib, tempfile, itertools
warnings.simplefilter("ignore")
import pvl
from c06b import CountingTokens
from pvl.lexer import lexer as real_lexer
label="a = 1\nGROUP = g\n  b = 'x'\nEND_GROUP\nEND"
seps=["\n"," ","\r\n","\n\n",";","\x00"," \n"]
trails=[b"", b"\xff\xfe\x00\x01"*10, b"\x00"*50, "éü€ valid utf8".encode(), b"abc"*2000, b"x = 5\nEND\n", b"\xe2\x82", b"a\xe2\x82\xacb\xffzz", b"\x80abc", b"= = = (((", b'"unterminated', b"/* open comment"]
td=tempfile.mkdtemp(dir="/tmp/probe")
def entries(data):
    p=os.path.join(td,"f.lbl"); open(p,"wb").write(data)
    yield "str-path", lambda: pvl.load(p)
    yield "Path", lambda: pvl.load(pathlib.Path(p))
    yield "url", lambda: pvl.loadu("file://"+p)
    def ts():
        with open(p,"r") as f: return pvl.load(f)
    yield "text-stream", ts
    def bs():
        with open(p,"rb") as f: return pvl.load(f)
    yield "bin-stream", bs
    yield "BytesIO", lambda: pvl.load(io.BytesIO(data))
    def st():
        return pvl.loads(data.decode())
    yield "str", st
    yield "bytes", lambda: pvl.loads(data)
    def sio(): return pvl.load(io.StringIO(data.decode()))
    yield "StringIO", sio
base=pvl.loads(label)
import collections
bad=collections.Counter(); ex={}
for sep in seps:
    for tr in trails:
        data=label.encode()+sep.encode()+tr
        for name,f in entries(data):
            try:
                m=f(); r="eq" if m==base else "DIFF %r"%(list(m),)
            except UnicodeDecodeError as e: r="UnicodeDecodeError"
            except Exception as e: r="EXC "+type(e).__name__
            if r!="eq":
                bad[name,r[:30]]+=1; ex.setdefault((name,r[:30]),(sep,tr[:20]))
for k,v in sorted(bad.items()): print(k,v,ex[k])
# tokens requested beyond END
class Cnt:
    def __init__(s): s.last=None
    def __call__(s,text,g=None,d=None):
        s.ct=CountingTokens(real_lexer(text,g=g,d=d),10**9); s.toks=[]
        outer=s
        class W:
            def __iter__(w): return w
            def __next__(w):
                t=next(outer.ct); outer.toks.append(str(t)); return t
            def send(w,v): return outer.ct.send(v)
            def throw(w,*a): return outer.ct.throw(*a)
        return W()
for tail in ["", "\n", " x", "\nxyz = 3", ";", "; more", " /* c */ zz"]:
    c=Cnt(); pvl.loads(label+tail, lexer_fn=c); print(repr(tail),"tokens pulled tail:",c.toks[-3:])
# dump
m=base
for enc in (None, pvl.encoder.PVLEncoder()):
    kw={} if enc is None else {"encoder":enc}
    s=pvl.dumps(m,**kw)
    p=os.path.join(td,"out.lbl")
    r=pvl.dump(m,p,**kw); print("path ret",r,len(s),open(p,"rb").read()==s.encode(), open(p,newline="").read()==s)
    with open(p,"w",newline="") as f: r=pvl.dump(m,f,**kw)
    print("text ret",r,open(p,"rb").read()==s.encode())
    with open(p,"w") as f: r=pvl.dump(m,f,**kw)
    print("text(default newline) ret",r,open(p,"rb").read()==s.encode())
    with open(p,"wb") as f: r=pvl.dump(m,f,**kw)
    print("bin ret",r,open(p,"rb").read()==s.encode())
    b=io.BytesIO(); r=pvl.dump(m,b,**kw); print("BytesIO",r,b.getvalue()==s.encode())
    b=io.StringIO(); r=pvl.dump(m,b,**kw); print("StringIO",r,b.getvalue()==s)
