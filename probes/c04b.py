import warnings, itertools, collections, multiprocessing as mp
warnings.simplefilter("ignore")
from c06b import parsers, Budget
exec(open("c04.py").read().split("P=list(parsers())")[0].split("from pvl.exceptions")[1].split("\n",1)[1])
CORE=[""," ","\n","\r\n","/* c */","/**/"," # c\n","\t\f"]
P=None
def work(args):
    global P
    if P is None: P=list(parsers())
    di,g1=args; doc=docs[di]; n=len(doc)
    canon=[" "]*(n-1)+[""]
    base={}
    for name,p in P:
        p.errors=[]; base[name]=repr(list(p.parse(render(doc,canon))))
    res=collections.Counter(); ex=[]
    for g2 in range(g1+1,n):
        for s1 in CORE:
            if s1=="" and g1<n-1 and need_sep(doc[g1],doc[g1+1]): continue
            for s2 in CORE:
                if s2=="" and g2<n-1 and need_sep(doc[g2],doc[g2+1]): continue
                seps=list(canon); seps[g1]=s1; seps[g2]=s2
                text=render(doc,seps)
                for name,p in P:
                    if ("#" in s1 or "#" in s2) and name not in("ISIS","OMNI"): continue
                    try: p.errors=[]; r=repr(list(p.parse(text)))
                    except Budget: r="SPIN"
                    except Exception as e: r="EXC "+type(e).__name__
                    res[name,"same" if r==base[name] else "DIFF"]+=1
                    if r!=base[name] and len(ex)<5: ex.append((name,text,r[:80]))
    return res,ex
if __name__=="__main__":
    jobs=[(di,g) for di in range(len(docs)) for g in range(len(docs[di]))]
    tot=collections.Counter(); exs=[]
    with mp.Pool(16) as pool:
        for r,e in pool.imap_unordered(work,jobs): tot.update(r); exs.extend(e)
    print(dict(tot)); 
    for e in exs[:10]: print(e)
