import warnings, itertools, collections, sys, multiprocessing as mp
warnings.simplefilter("ignore")
from c06b import parsers, Budget
from pvl.exceptions import LexerError, ParseError
from pvl.parser import EmptyValueAtLine
from pvl.collections import Quantity, PVLGroup, PVLObject
import datetime as dt
# statement templates: ("A", name, valuetext, expected) | ("B", kw, name, [stmts], endname?)
VALS=[("x","x"),("1",1),('"q r"',"q r"),("(1, 2)",[1,2]),("1.5 <m>",Quantity(1.5,"m")),("2001-01-01",dt.date(2001,1,1)),("NULL",None),("{a, b}",frozenset(["a","b"]))]
def docs():
    names=["a","b","c","d"]
    # flat docs with n assignments
    for n in (1,2,3):
        for vs in itertools.product(range(len(VALS)) if n<3 else (0,1,3),repeat=n):
            yield [("A",names[i],VALS[v]) for i,v in enumerate(vs)]
    # with blocks
    for v1,v2,v3 in itertools.product((0,1,2),repeat=3):
        for kw in ("GROUP","OBJECT"):
            for endname in (True,False):
                yield [("A","a",VALS[v1]),("B",kw,"g",[("A","b",VALS[v2]),("A","c",VALS[v3])],endname),("A","d",VALS[v1])]
                yield [("B",kw,"g",[("A","b",VALS[v2]),("B","OBJECT","o",[("A","c",VALS[v3])],endname),("A","d",VALS[v1])],endname)]
def assigns(doc,path=()):
    for i,s in enumerate(doc):
        if s[0]=="A": yield path+(i,)
        else: yield from assigns(s[3],path+(i,))
LAYOUTS=["nl","blank","two","comment","crlf","eqline","end","noend","semi"]
def render(doc,empty,layout):
    """returns text, expected tree, expected error lines"""
    lines=[]; errs=[]
    def emit(stmts,path,level):
        tree=[]
        for i,s in enumerate(stmts):
            p=path+(i,); indent="  "*level
            if s[0]=="A":
                if p in empty:
                    if layout=="eqline": lines.append(indent+s[1]); lines.append(indent+"=" ); ln=len(lines)
                    elif layout=="semi": lines.append(indent+s[1]+" = ;"); ln=len(lines)
                    else: lines.append(indent+s[1]+" ="); ln=len(lines)
                    errs.append(ln); tree.append((s[1],("EMPTY",ln)))
                else:
                    if layout=="eqline": lines.append(indent+s[1]); lines.append(indent+"= "+s[2][0])
                    else: lines.append(indent+s[1]+" = "+s[2][0]+(";" if layout=="semi" else ""))
                    tree.append((s[1],s[2][1]))
                if layout=="blank": lines.append("")
                if layout=="comment": lines.append(indent+"/* note */")
            else:
                lines.append(indent+s[1]+" = "+s[2])
                sub=emit(s[3],p,level+1)
                lines.append(indent+"END_"+s[1]+(" = "+s[2] if s[4] else ""))
                tree.append((s[2],(s[1][0],sub)))
        return tree
    tree=emit(doc,(),0)
    if layout!="noend": lines.append("END")
    nl="\r\n" if layout=="crlf" else "\n"
    if layout=="two":
        # join pairs of lines with a space: line numbers change -> recompute by re-rendering: simpler: skip errs recompute by mapping
        newlines=[]; mapping={}
        for j in range(0,len(lines),2):
            newlines.append(" ".join(lines[j:j+2]))
            for k in (j,j+1): mapping[k+1]=len(newlines)
        def remap(t):
            return [(k,("EMPTY",mapping[v[1]]) if isinstance(v,tuple) and v and v[0]=="EMPTY" else ((v[0],remap(v[1])) if isinstance(v,tuple) and v and v[0] in("G","O") else v)) for k,v in t]
        tree=remap(tree); errs2=[mapping[e] for e in errs]; return nl.join(newlines), tree, sorted(errs2)
    return nl.join(lines)+("" if layout=="noend" else nl), tree, sorted(errs)
def conv(v):
    if isinstance(v,EmptyValueAtLine): return ("EMPTY",v.lineno)
    if isinstance(v,PVLGroup): return ("G",[(k,conv(x)) for k,x in v])
    if isinstance(v,PVLObject): return ("O",[(k,conv(x)) for k,x in v])
    return v
P=None
def work(doc):
    global P
    if P is None: P=dict(parsers())
    res=collections.Counter(); ex={}
    A=list(assigns(doc))
    for r in range(1,len(A)+1):
        for empty in itertools.combinations(A,r):
            for layout in LAYOUTS:
                text,tree,errs=render(doc,set(empty),layout)
                p=P["OMNI"]; p.errors=[]
                try:
                    m=p.parse(text); got=[(k,conv(v)) for k,v in m]
                    ok = got==tree and m.errors==errs and all(type(a)==type(b) for (_,a),(_,b) in zip(got,tree))
                    r_="ok" if ok else ("DIFF-tree" if got!=tree else "DIFF-errors")
                except Budget: r_="SPIN"
                except (LexerError,ParseError): r_="RAISE"
                except Exception as e: r_="EXC "+type(e).__name__
                res["OMNI",r_]+=1
                if r_!="ok":
                    ex.setdefault(r_,[])
                    if len(ex[r_])<3: ex[r_].append((text,layout))
                for d in ("PVL","ODL","PDS3"):
                    p=P[d]
                    try: p.parse(text); s="ACCEPT"
                    except (LexerError,ParseError): s="raise"
                    except Budget: s="SPIN"
                    except Exception as e: s="EXC "+type(e).__name__
                    res[d,s]+=1
                    if s!="raise":
                        ex.setdefault((d,s),[])
                        if len(ex[d,s])<3: ex[d,s].append((text,layout))
    return res,ex
if __name__=="__main__":
    D=list(docs()); print("docs",len(D))
    tot=collections.Counter(); exs={}
    with mp.Pool(16) as pool:
        for res,ex in pool.imap_unordered(work,D,chunksize=4):
            tot.update(res)
            for k,v in ex.items(): exs.setdefault(k,[]).extend(v)
    for k in sorted(tot,key=str): print(k,tot[k])
    for k,v in exs.items():
        print("==",k)
        for t,l in sorted(v,key=lambda x:len(x[0]))[:4]: print("    ",l,repr(t))
