import sys


def main(argv):
    if len(argv) == 2 and argv[0] == "--replay":
        from . import runner
        return runner.run_replay(argv[1])
    if len(argv) == 2 and argv[1] in ("quick", "thorough"):
        from . import runner
        return runner.run_check(argv[0].upper(), argv[1])
    print("usage: vcheck <Cnn> quick|thorough | vcheck --replay <file>")
    return 2


if __name__ == "__main__":
    sys.exit(main(sys.argv[1:]))
