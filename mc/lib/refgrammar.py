"""R2 - token-level reference grammar (three-valued), written from the Blue
Book BNF quoted in pvl/parser.py's docstrings and the ODL BNF (PDS3 Standards
Reference ch. 12.7).  Independent of pvl's parser: an LL(2) recursive descent
over ABSTRACT tokens.

token = (kind, text, payload)
kinds: NAME EQ VAL QUOTED LP RP LB RB COMMA SEMI UNITS BEGIN ENDAGG END COMMENT
  NAME    payload None (text is the name; in value position it is an unquoted string)
  VAL     payload = expected Python value of the simple value
  QUOTED  payload = expected str
  UNITS   payload = units text
  BEGIN   payload 'G' | 'O'      ENDAGG payload 'G' | 'O'

verdict(tokens, mode) -> ("WELL", items) | ("ILL", diagnosis) | ("UNSPEC", why)
  items: list of (name, node); node = python value | ("SEQ", [..]) | ("SET", [..])
         | ("Q", node, units) | ("G"|"O", items) | EMPTY
mode: "pvl" | "odl" | "omni"  (omni = pvl + exactly the missing-value tolerance
      that property C08 states)
"""

EMPTY = ("EMPTY",)


class Ill(Exception):
    pass


class Unspec(Exception):
    pass


def verdict(tokens, mode):
    try:
        return ("WELL", parse(tokens, mode))
    except Ill as e:
        return ("ILL", str(e))
    except Unspec as e:
        return ("UNSPEC", str(e))


def parse(tokens, mode="pvl"):
    omni = mode == "omni"
    odl = mode == "odl"
    # lexical damage: an unterminated quoted string (units expression) runs to the
    # end of the text unless a later token contains its closing character, in
    # which case the tokenisation of the rest is not what this list says
    for i, t in enumerate(tokens):
        if t[0] in ("BADQ", "BADU", "BADC"):
            if any(tt[0] == "END" for tt in tokens[:i]):
                break                      # after END nothing is looked at
            if t[0] == "BADU":
                # either it runs to the end of the text, or up to the '>' of a later
                # '<m>' token - and then it contains a second '<', which no units
                # expression may: ill-formed both ways
                raise Ill("unterminated-units")
            if t[0] == "BADC":
                if any("*/" in tt[1] for tt in tokens[i + 1:]):
                    raise Unspec("lexical damage closed by a later token")
                raise Ill("unterminated-comment")
            # a quoted string is closed only by the character that opened it
            if any(t[1][0] in tt[1] for tt in tokens[i + 1:]):
                raise Unspec("lexical damage closed by a later token")
            raise Ill("unterminated-quoted-string")
    toks = [t for t in tokens if t[0] != "COMMENT"]
    pos = [0]
    flags = {"unspec": None}

    def peek(k=0):
        i = pos[0] + k
        return toks[i] if i < len(toks) else ("EOF", "", None)

    def nxt():
        t = peek()
        pos[0] += 1
        return t

    def is_name(t):
        return t[0] == "NAME"

    def value(in_set=False):
        t = peek()
        if t[0] in ("VAL", "QUOTED"):
            nxt()
            v = t[2]
        elif t[0] == "NAME":
            nxt()
            v = t[1]
        elif t[0] == "LP":
            v = ("SEQ", seqset("LP", "RP", False))
        elif t[0] == "LB":
            if in_set and odl:
                flags["unspec"] = flags["unspec"] or "set nested in an ODL set"
            v = ("SET", seqset("LB", "RB", True))
        else:
            raise Ill("value-expected")
        if peek()[0] == "UNITS":
            u = nxt()
            if odl and not (isinstance(v, (int, float)) and not isinstance(v, bool)):
                # ODL 2.1: a units expression belongs to a numeric value only; after anything else
                # it is a token that no statement form admits
                raise Ill("odl-units-after-non-number")
            v = ("Q", v, u[2])
        return v

    def seqset(o, c, is_set):
        nxt()
        items = []
        if peek()[0] == c:
            nxt()
            if odl and not is_set:
                flags["unspec"] = flags["unspec"] or "empty sequence in ODL"
            return items
        while True:
            items.append(value(in_set=is_set))
            t = nxt()
            if t[0] == c:
                return items
            if t[0] == "EOF":
                raise Ill("unterminated-sequence-or-set")
            if t[0] != "COMMA":
                raise Ill("missing-comma")

    def statements(inblock):
        items = []
        while True:
            t = peek()
            if t[0] in ("EOF", "END", "ENDAGG"):
                return items
            if t[0] == "BEGIN":
                nxt()
                if nxt()[0] != "EQ":
                    raise Ill("begin-without-equals")
                n = nxt()
                if not is_name(n):
                    raise Ill("block-name-expected")
                if peek()[0] == "SEMI":
                    nxt()
                body = statements(True)
                e = nxt()
                if e[0] != "ENDAGG":
                    raise Ill("block-left-open")
                if e[2] != t[2]:
                    raise Ill("mispaired-end")
                if peek()[0] == "EQ":
                    nxt()
                    n2 = nxt()
                    if not is_name(n2):
                        raise Ill("end-block-name-expected")
                    if n2[1] != n[1]:
                        raise Ill("block-name-mismatch")
                if peek()[0] == "SEMI":
                    nxt()
                if not body:
                    flags["unspec"] = flags["unspec"] or "empty block"
                items.append((n[1], (t[2], body)))
            elif is_name(t):
                nxt()
                if nxt()[0] != "EQ":
                    raise Ill("name-without-equals")
                p = peek()
                if omni and (p[0] in ("EOF", "END", "ENDAGG", "SEMI", "BEGIN")
                             or (is_name(p) and peek(1)[0] == "EQ")):
                    v = EMPTY
                else:
                    v = value()
                if peek()[0] == "SEMI":
                    nxt()
                items.append((t[1], v))
            else:
                raise Ill("stray-token")

    items = statements(False)
    t = peek()
    if t[0] == "ENDAGG":
        raise Ill("end-without-begin")
    if t[0] not in ("EOF", "END"):
        raise Ill("stray-token")
    if flags["unspec"]:
        raise Unspec(flags["unspec"])
    return items


def has_empty(items):
    for _, v in items:
        if v == EMPTY:
            return True
        if isinstance(v, tuple) and v and v[0] in ("G", "O") and has_empty(v[1]):
            return True
    return False
