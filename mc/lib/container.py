"""Driving the real pvl.collections.OrderedMultiDict family: applying menu
operations, reading the complete concrete state without going through the
code under test, and taking the observation vector through the public API."""
from . import impl
from .listmodel import DEFAULT, MISSING, second_pair

CLASSES = {"OrderedMultiDict": impl.OrderedMultiDict, "PVLModule": impl.PVLModule,
           "PVLGroup": impl.PVLGroup, "PVLObject": impl.PVLObject}

_ITEMS = "_OrderedMultiDict__items"


def _items_of(o):
    """the item list: read straight from the instance when the (private) attribute
    is there - that does not go through the code under test - else by iteration,
    so that a rename of the attribute does not break the harness"""
    try:
        return list(getattr(o, _ITEMS))
    except AttributeError:
        return list(o)


def concrete(o):
    """(item list, mapping storage in insertion order) - the whole state of the
    object.  Equal concrete states have equal futures."""
    items = tuple((k, _cv(v)) for k, v in _items_of(o))
    try:
        raw = list(dict.items(o))
    except TypeError:
        raw = []
    store = tuple((k, tuple(_cv(x) for x in v) if isinstance(v, list) else ("BARE", _cv(v)))
                  for k, v in raw)
    return (items, store)


def _cv(v):
    if isinstance(v, impl.OrderedMultiDict):
        return (type(v).__name__,) + concrete(v)
    if isinstance(v, list):
        return ("list",) + tuple(_cv(x) for x in v)
    if isinstance(v, impl.Quantity):
        return ("Quantity", _cv(v.value), v.units)
    if isinstance(v, dict):
        # a plain mapping put into the container by hand: its class is part of what a copy must keep
        return (type(v).__name__,) + tuple((k, _cv(x)) for k, x in v.items())
    return v


def invariant(o):
    """Diagnostic only (never an alarm by itself): with the present layout - a private
    item list plus dict storage of value lists - the storage should be the grouping of
    the list.  Every divergence that matters is visible through the public accessors,
    which is what the checks compare."""
    try:
        items = getattr(o, _ITEMS)
        raw = dict(dict.items(o))
    except (AttributeError, TypeError):
        return None
    if not raw and items:
        return None               # some other storage layout
    grouped = {}
    for k, v in items:
        grouped.setdefault(k, []).append(v)
    if raw != grouped:
        return "mapping storage %r is not the grouping of the item list %r" % (raw, items)
    return None


def apply(o, op, keys, vals):
    """Returns ('ok', ret) | ('lookup',) | ('exc', name, text)."""
    try:
        return ("ok", _apply(o, op, keys, vals))
    except LookupError:
        return ("lookup",)
    except Exception as e:  # noqa: BLE001
        return ("exc", type(e).__name__, str(e)[:200])


def _apply(o, op, keys, vals):
    n = op[0]
    if n == "append": return o.append(op[1], op[2])
    if n == "setitem":
        o[op[1]] = op[2]; return None
    if n == "setdefault": return o.setdefault(op[1], op[2])
    if n == "setdefault0": return o.setdefault(op[1])
    if n == "update_dict": return o.update({op[1]: op[2]})
    if n == "update_pairs": return o.update([(op[1], op[2])])
    if n == "update_pairs2": return o.update([(op[1], op[2]), (op[3], op[4])])
    if n == "update_kw": return o.update(**{op[1]: op[2]})
    if n == "extend_list": return o.extend([(op[1], op[2])])
    if n == "extend_list2":
        return o.extend([(op[1], op[2]), second_pair(op[1], op[2], keys, vals)])
    if n == "extend_dict": return o.extend({op[1]: op[2]})
    if n == "extend_md":
        return o.extend(impl.OrderedMultiDict([(op[1], op[2]), (op[1], vals[-1])]))
    if n == "extend_kw": return o.extend(**{op[1]: op[2]})
    if n == "extend_live":
        src = type(o)([(op[1], op[2]), (op[1], vals[-1])])
        o.extend(src)
        o.append(op[1], vals[0])             # must not show in src ...
        _expect_list(src, [(op[1], op[2]), (op[1], vals[-1])], keys, vals, "the source of extend()")
        src.append(op[1], 77)                # ... and a change of src must not show in o (checked by the caller)
        src.pop()
        src.pop()
        return None
    if n == "construct_from":
        snapshot = list(o)
        for other in (type(o)(o), o.copy()):
            for k in keys:
                other.append(k, 55)
            if len(other):
                other.pop()
            other.insert(0, keys[0], 56)
            other[keys[-1]] = 57
        _expect_list(o, snapshot, keys, vals, "the container another one was built from")
        return None
    if n == "insert3": return o.insert(op[1], op[2], op[3])
    if n == "insert_pair": return o.insert(op[1], (op[2], op[3]))
    if n == "insert_klist": return o.insert(op[1], [op[2], op[3]])
    if n == "insert_dict": return o.insert(op[1], {op[2]: op[3]})
    if n == "insert_list1": return o.insert(op[1], [(op[2], op[3])])
    if n == "insert_list2":
        return o.insert(op[1], [(op[2], op[3]), second_pair(op[2], op[3], keys, vals)])
    if n == "insert_list2same":
        return o.insert(op[1], [(op[2], op[3]), (op[2], op[3])])
    if n == "insert_after": return o.insert_after(op[1], (op[2], op[3]), op[4])
    if n == "insert_before": return o.insert_before(op[1], (op[2], op[3]), op[4])
    if n == "insert_after_list2":
        return o.insert_after(op[1], [(op[2], op[3]), second_pair(op[2], op[3], keys, vals)], op[4])
    if n == "insert_before_list2":
        return o.insert_before(op[1], [(op[2], op[3]), second_pair(op[2], op[3], keys, vals)], op[4])
    if n == "delitem":
        del o[op[1]]; return None
    if n == "popk": return o.pop(op[1])
    if n == "popkd": return o.pop(op[1], DEFAULT)
    if n == "popall": return o.popall(op[1])
    if n == "popalld": return o.popall(op[1], DEFAULT)
    if n == "discard": return o.discard(op[1])
    if n == "pop": return o.pop()
    if n == "popitem": return o.popitem()
    if n == "clear": return o.clear()
    raise ValueError(op)


def _expect_list(obj, want, keys, vals, what):
    from . import listmodel
    got = observe(obj, keys, vals)
    exp = listmodel.observe(list(want), keys, vals)
    bad = [k for k in exp if exp[k] != got.get(k)]
    if bad:
        raise AssertionError("%s changed: accessor %s gives %r, its list says %r"
                             % (what, bad[0], got.get(bad[0]), exp[bad[0]]))


def _try(f, *exc_names):
    try:
        return f()
    except LookupError:
        return "LookupError"
    except ValueError:
        return "ValueError"


def observe(o, keys, vals):
    """The same vector listmodel.observe computes, taken through the public
    accessors of the real object."""
    n = len(o)
    probe = list(keys) + ["z"]
    vprobe = list(vals) + [99]
    out = {}
    out["iter"] = list(o)
    out["len"] = n
    idx = []
    for i in range(-n - 1, n + 1):
        try:
            idx.append(o[i])
        except IndexError:
            idx.append("IndexError")
    out["idx"] = idx
    out["slices"] = [o[0:n], o[1:], o[:-1], o[::2], o[::-1], o[n:], o[-2:]]
    kv, vv, iv = o.keys(), o.values(), o.items()
    out["keys"] = (list(kv), len(kv), [kv[i] for i in range(n)],
                   [k in kv for k in probe],
                   [_try(lambda: kv.index(k)) for k in probe])
    out["values"] = (list(vv), len(vv), [vv[i] for i in range(n)],
                     [v in vv for v in vprobe],
                     [_try(lambda: vv.index(v)) for v in vprobe])
    out["items"] = (list(iv), len(iv), [iv[i] for i in range(n)],
                    [(k, v) in iv for k in probe for v in vprobe],
                    [_try(lambda: iv.index((k, v))) for k in probe for v in vprobe])
    for k in probe:
        out["in:" + k] = k in o
        out["getitem:" + k] = _try(lambda: o[k])
        out["get:" + k] = o.get(k)
        out["getd:" + k] = o.get(k, DEFAULT)
        try:
            r = o.getall(k)
            if not isinstance(r, list):
                r = ("not-a-list", type(r).__name__, list(r))
            else:
                keep = list(r)
                r.append("scribble")        # the caller owns the returned list
                r = keep if keep else MISSING
        except LookupError:
            r = MISSING
        out["getall:" + k] = r
        for inst in (0, 1, -1, 2):
            out["key_index:%s:%d" % (k, inst)] = _try(lambda: o.key_index(k, inst))
    return out
