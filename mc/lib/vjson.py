"""Typed JSON encoding of the Python values pvl handles, so that every case
(module, value, history) can be written to a replay file and rebuilt exactly.

enc(value) -> JSON-able; dec(obj) -> value.  Also `canon(value)`: a hashable,
order-insensitive-for-sets canonical form used to compare results.
"""
import datetime as dt
from decimal import Decimal

from . import impl

_CLS = {
    "omd": impl.OrderedMultiDict, "module": impl.PVLModule,
    "group": impl.PVLGroup, "object": impl.PVLObject,
    "modulenew": impl.PVLModuleNew, "groupnew": impl.PVLGroupNew,
    "objectnew": impl.PVLObjectNew,
}
_NAME = {v: k for k, v in _CLS.items()}


def _tz_enc(tz):
    if tz is None:
        return None
    off = tz.utcoffset(None)
    return int(off.total_seconds())


def _tz_dec(o):
    if o is None:
        return None
    if o == 0:
        return dt.timezone.utc
    return dt.timezone(dt.timedelta(seconds=o))


def enc(v):
    if v is None or isinstance(v, (bool, int)):
        return v
    if isinstance(v, float):
        return {"$": "float", "r": repr(v)}
    if isinstance(v, impl.EmptyValueAtLine):
        return {"$": "empty", "line": v.lineno}
    if isinstance(v, str):
        return str(v)
    if isinstance(v, Decimal):
        return {"$": "decimal", "r": str(v)}
    if isinstance(v, impl.Quantity):
        return {"$": "quantity", "v": enc(v.value), "u": enc(v.units)}
    if isinstance(v, tuple):
        return {"$": "tuple", "v": [enc(x) for x in v]}
    if isinstance(v, list):
        return [enc(x) for x in v]
    if isinstance(v, (set, frozenset)):
        items = sorted((enc(x) for x in v), key=lambda e: repr(e))
        return {"$": "frozenset" if isinstance(v, frozenset) else "set", "v": items}
    if isinstance(v, dt.datetime):
        return {"$": "datetime", "v": [v.year, v.month, v.day, v.hour, v.minute,
                                      v.second, v.microsecond], "tz": _tz_enc(v.tzinfo)}
    if isinstance(v, dt.date):
        return {"$": "date", "v": [v.year, v.month, v.day]}
    if isinstance(v, dt.time):
        return {"$": "time", "v": [v.hour, v.minute, v.second, v.microsecond],
                "tz": _tz_enc(v.tzinfo)}
    if type(v) in _NAME:
        return {"$": _NAME[type(v)], "items": [[enc(k), enc(x)] for k, x in _items(v)]}
    if type(v) is dict:
        return {"$": "dict", "items": [[enc(k), enc(x)] for k, x in v.items()]}
    raise TypeError("vjson cannot encode %r" % (type(v),))


def _items(m):
    if isinstance(m, impl.OrderedMultiDict):
        return list(m)
    return list(m.items())


def dec(o):
    if o is None or isinstance(o, (bool, int, str)):
        return o
    if isinstance(o, list):
        return [dec(x) for x in o]
    t = o["$"]
    if t == "float":
        return float(o["r"])
    if t == "empty":
        return impl.EmptyValueAtLine(o["line"])
    if t == "decimal":
        return Decimal(o["r"])
    if t == "quantity":
        return impl.Quantity(dec(o["v"]), dec(o["u"]))
    if t == "tuple":
        return tuple(dec(x) for x in o["v"])
    if t == "set":
        return set(dec(x) for x in o["v"])
    if t == "frozenset":
        return frozenset(dec(x) for x in o["v"])
    if t == "datetime":
        return dt.datetime(*o["v"], tzinfo=_tz_dec(o["tz"]))
    if t == "date":
        return dt.date(*o["v"])
    if t == "time":
        return dt.time(*o["v"], tzinfo=_tz_dec(o["tz"]))
    if t == "dict":
        return {dec(k): dec(x) for k, x in o["items"]}
    if t in _CLS:
        return _CLS[t]([(dec(k), dec(x)) for k, x in o["items"]])
    raise TypeError("vjson cannot decode %r" % (t,))


def canon(v):
    """Hashable canonical form: exact types, exact values, sets as sorted
    multisets of their members' canonical forms (iteration order never
    matters), containers as (class name, item tuple)."""
    if v is None:
        return ("none",)
    if isinstance(v, bool):
        return ("bool", v)
    if isinstance(v, int):
        return ("int", v)
    if isinstance(v, float):
        return ("float", repr(v))
    if isinstance(v, Decimal):
        return ("decimal", str(v))
    if isinstance(v, impl.EmptyValueAtLine):
        return ("empty", v.lineno)
    if isinstance(v, str):
        return ("str", str(v))
    if isinstance(v, impl.Quantity):
        return ("quantity", canon(v.value), canon(v.units))
    if isinstance(v, tuple):
        return ("tuple",) + tuple(canon(x) for x in v)
    if isinstance(v, list):
        return ("list",) + tuple(canon(x) for x in v)
    if isinstance(v, (set, frozenset)):
        return (type(v).__name__,) + tuple(sorted((canon(x) for x in v), key=repr))
    if isinstance(v, dt.datetime):
        return ("datetime", v.year, v.month, v.day, v.hour, v.minute, v.second,
                v.microsecond, _tz_enc(v.tzinfo))
    if isinstance(v, dt.date):
        return ("date", v.year, v.month, v.day)
    if isinstance(v, dt.time):
        return ("time", v.hour, v.minute, v.second, v.microsecond, _tz_enc(v.tzinfo))
    if isinstance(v, (impl.OrderedMultiDict, impl.pc.PVLMultiDict)) or type(v) is dict:
        its = _items(v) if not type(v) is dict else list(v.items())
        return (type(v).__name__,) + tuple((canon(k), canon(x)) for k, x in its)
    return ("other", type(v).__name__, repr(v))
