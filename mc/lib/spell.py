"""R3 - spelling tables: for each abstract simple value the concrete spellings
a dialect permits, written from the specifications (Blue Book section 2 for
PVL; PDS3 Standards Reference 12.3 for ODL/PDS3), independent of pvl's lexer
and decoder.

spellings(dialect) -> list of (text, expected python value, kind)
kind: 'int' | 'real' | 'qstr' (quoted) | 'ustr' (unquoted)
"""

FOLDING = ("ODL", "PDS3", "ISIS", "OMNI")   # ODL-family decoders fold white space in quoted text


def _digits(n, radix):
    ds = "0123456789ABCDEF"
    if n == 0:
        return "0"
    out = ""
    while n:
        out = ds[n % radix] + out
        n //= radix
    return out


def ints(dialect):
    out = []
    for n in (0, 7, 10, 255):
        out.append((str(n), n))
        out.append(("+" + str(n), n))
        out.append(("-" + str(n), -n))
    out.append(("0012", 12))
    out.append(("-007", -7))
    pvl_forms = dialect in ("PVL", "ISIS", "OMNI")
    odl_forms = dialect in ("ODL", "PDS3", "OMNI")
    if pvl_forms:
        # [sign]radix#digits#, radix 2, 8, 16
        for radix in (2, 8, 16):
            for n in (0, 10, 255):
                d = _digits(n, radix)
                out.append(("%d#%s#" % (radix, d), n))
                out.append(("+%d#%s#" % (radix, d), n))
                out.append(("-%d#%s#" % (radix, d), -n))
        out.append(("16#ff#", 255))
        out.append(("16#00fF#", 255))
        out.append(("2#0001#", 1))
    if odl_forms:
        # radix#[sign]digits#, radix 2..16
        for radix in (2, 3, 8, 10, 12, 16):
            for n in (0, 10, 255):
                d = _digits(n, radix)
                out.append(("%d#%s#" % (radix, d), n))
                out.append(("%d#+%s#" % (radix, d), n))
                out.append(("%d#-%s#" % (radix, d), -n))
        out.append(("16#ff#", 255))
        out.append(("16#-fF#", -255))
    seen, res = set(), []
    for t, v in out:
        if t not in seen:
            seen.add(t)
            res.append((t, v, "int"))
    return res


def reals(dialect):
    out = []
    for body in ("1.5", "0.25", "10.0", "1.", ".5", "0.0"):
        for sign in ("", "+", "-"):
            out.append(sign + body)
    for body in ("1.5", "2.", ".5"):
        for exp in ("E3", "e3", "E+3", "E-3", "e+03", "E0"):
            for sign in ("", "-", "+"):
                out.append(sign + body + exp)
    return [(t, float(t), "real") for t in out]


def fold(s):
    """ODL text-string rule on the strings used here: white space around a
    line break collapses to one space; leading/trailing white space goes."""
    import re
    return re.sub(r"[ \t\r\n\f\v]+", " ", s).strip(" \t\r\n\f\v")


def strings(dialect):
    out = []
    raw = ["abc", "a b", "it's", 'say "hi"', "a = 1", "x, y", "(1)", "{1}", "<m>", "a;b", "/* c */",
           "# c", "END", "GROUP", "1", "1.5", "2001-01-01", "NULL", "", "a \n b", "x\r\n  y", "-",
           # content that begins and ends with the other quote character, lone quote characters
           "'nominal'", '"nominal"', "''", '""', "'", '"', "'a", 'a"', "'a' 'b'"]
    for s in raw:
        exp = fold(s) if dialect in FOLDING else s
        if '"' not in s:
            out.append(('"%s"' % s, exp, "qstr"))
        if "'" not in s:
            out.append(("'%s'" % s, exp, "qstr"))
    un = ["abc", "ABC_1", "a1", "Abc", "A__B", "A_B_C", "a__1", "A1_2_c"]
    if dialect in ("PVL", "ISIS", "OMNI"):
        un += ["a.b", "a-b", "a:b", "x/y", "a*b", "a_", "_a", "a@b", "a$b", "a\\b", "a?", "a^b", "a`b"]
        un += ["Mare\xa0Imbrium", "a\xadb", "\xb5m"]       # Latin-1 characters that are not PVL white space
    if dialect in ("ISIS", "OMNI"):
        un += ["a+b"]
    if dialect == "OMNI":
        un += ["a\x85b", "a\u2003b", "a\u3000b", "a\u2028b", "caf\xe9\u4e2d"]   # every character is allowed there
    for s in un:
        out.append((s, s, "ustr"))
    return out


def spellings(dialect):
    return ints(dialect) + reals(dialect) + strings(dialect)
