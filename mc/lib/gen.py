"""Generators of modules (value trees) shared by the encoder-side properties.

A module literal is a JSON-able list of [key, node]; node is a vjson-encoded
leaf value, or {"$": "group"|"object", "items": [...]} (vjson container
encoding), so build() is just vjson.dec on {"$": "module", "items": ...}.
"""
import itertools

from . import vjson


def forests(n, leaf_keys, agg_keys, leaves, depth=3):
    """All item lists with exactly n nodes (a node = one item at any level)."""
    if n == 0:
        yield []
        return
    for first in range(1, n + 1):
        for t in trees(first, leaf_keys, agg_keys, leaves, depth):
            for rest in forests(n - first, leaf_keys, agg_keys, leaves, depth):
                yield [t] + rest


def trees(s, leaf_keys, agg_keys, leaves, depth):
    if s == 1:
        for k in leaf_keys:
            for v in leaves:
                yield [k, v]
    if depth > 0:
        for k in agg_keys:
            for kind in ("group", "object"):
                for body in forests(s - 1, leaf_keys, agg_keys, leaves, depth - 1):
                    yield [k, {"$": kind, "items": body}]


def module(items, cls="module"):
    return vjson.dec({"$": cls, "items": items})


def count_nodes(items):
    n = 0
    for k, v in items:
        n += 1
        if isinstance(v, dict) and v.get("$") in ("group", "object"):
            n += count_nodes(v["items"])
    return n
