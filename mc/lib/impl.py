"""Binding to the implementation under test: /repo's working tree, nothing cached.

Everything the harnesses touch of pvl goes through this module so that the
"rebuild from the tree" rule lives in one place.
"""
import os
import sys
import warnings

REPO = os.environ.get("VERIF_REPO", "/repo")
if sys.path[0] != REPO:
    sys.path.insert(0, REPO)
warnings.simplefilter("ignore")

import pvl  # noqa: E402

assert os.path.realpath(pvl.__file__).startswith(os.path.realpath(REPO) + os.sep), (
    "pvl imported from %s, not from %s" % (pvl.__file__, REPO))

import pvl.new  # noqa: E402,F401
from pvl import collections as pc  # noqa: E402
from pvl.collections import (  # noqa: E402,F401
    OrderedMultiDict, PVLModule, PVLGroup, PVLObject, Quantity,
    PVLModuleNew, PVLGroupNew, PVLObjectNew,
)
from pvl.grammar import (  # noqa: E402,F401
    PVLGrammar, ODLGrammar, PDSGrammar, ISISGrammar, OmniGrammar)
from pvl.decoder import (  # noqa: E402,F401
    PVLDecoder, ODLDecoder, PDSLabelDecoder, OmniDecoder)
from pvl.parser import (  # noqa: E402,F401
    PVLParser, ODLParser, OmniParser, EmptyValueAtLine)
from pvl.encoder import (  # noqa: E402,F401
    PVLEncoder, ODLEncoder, PDSLabelEncoder, ISISEncoder)
from pvl.exceptions import LexerError, ParseError, QuantityError  # noqa: E402,F401
from pvl.lexer import lexer as real_lexer  # noqa: E402
from pvl.token import Token  # noqa: E402,F401
from pvl import pvl_validate, pvl_translate  # noqa: E402,F401


class Budget(BaseException):
    """Step budget exhausted: deliberately not an Exception, because the
    parser has `except Exception: pass` blocks that would swallow it."""


class AbortShard(BaseException):
    """Raised after several confirmed hangs in one process: the tree under test does
    hang, the shard stops (the run is then not exhaustive, and says so) instead of
    spending the watchdog time on every further case."""


class CountingTokens:
    """Wraps the real lexer generator (public `lexer_fn` seam).  Counts every
    next/send, remembers the tokens handed out, and raises Budget when the
    count passes the budget."""

    def __init__(self, gen, budget, log=None):
        self.gen = gen
        self.n = 0
        self.budget = budget
        self.log = log

    def _tick(self):
        self.n += 1
        if self.n > self.budget:
            raise Budget()

    def __iter__(self):
        return self

    def __next__(self):
        self._tick()
        t = next(self.gen)
        if self.log is not None:
            self.log.append(t)
        return t

    def send(self, v):
        self._tick()
        return self.gen.send(v)

    def throw(self, *a):
        return self.gen.throw(*a)

    def close(self):
        return self.gen.close()


def budget_for(text, factor=1):
    return factor * (200 + 60 * len(text))


class LexerFactory:
    """lexer_fn with a step budget; `last` is the CountingTokens of the most
    recent parse() so a harness can read how far the parser pulled."""

    def __init__(self, factor=1, keep_log=False):
        self.factor = factor
        self.keep_log = keep_log
        self.last = None

    def __call__(self, s, g=None, d=None):
        self.last = CountingTokens(
            real_lexer(s, g=g, d=d), budget_for(s, self.factor),
            [] if self.keep_log else None)
        return self.last


DIALECTS = ("PVL", "ODL", "PDS3", "ISIS", "OMNI")
STRICT = ("PVL", "ODL", "PDS3")


def make_parser(name, lexer_fn=None, **kw):
    """The five parser configurations named by the properties.  ISIS is the
    pairing pvl_validate defines (OmniParser + ISISGrammar + OmniDecoder);
    OMNI is what pvl.loads() builds with no arguments."""
    if name == "PVL":
        g = PVLGrammar()
        return PVLParser(grammar=g, decoder=PVLDecoder(grammar=g), lexer_fn=lexer_fn, **kw)
    if name == "ODL":
        g = ODLGrammar()
        return ODLParser(grammar=g, decoder=ODLDecoder(grammar=g), lexer_fn=lexer_fn, **kw)
    if name == "PDS3":
        g = PDSGrammar()
        return ODLParser(grammar=g, decoder=PDSLabelDecoder(grammar=g), lexer_fn=lexer_fn, **kw)
    if name == "ISIS":
        g = ISISGrammar()
        return OmniParser(grammar=g, decoder=OmniDecoder(grammar=g), lexer_fn=lexer_fn, **kw)
    if name == "OMNI":
        return OmniParser(lexer_fn=lexer_fn, **kw)
    if name == "ISISx":
        # grammar given explicitly, decoder built on its own (its grammar is ODLGrammar): what
        # pvl.loads(s, grammar=ISISGrammar(), decoder=OmniDecoder()) builds
        return OmniParser(grammar=ISISGrammar(), decoder=OmniDecoder(), lexer_fn=lexer_fn, **kw)
    raise KeyError(name)


def make_grammar_decoder(name):
    if name == "PVL":
        g = PVLGrammar(); return g, PVLDecoder(grammar=g)
    if name == "ODL":
        g = ODLGrammar(); return g, ODLDecoder(grammar=g)
    if name == "PDS3":
        g = PDSGrammar(); return g, PDSLabelDecoder(grammar=g)
    if name == "ISIS":
        g = ISISGrammar(); return g, OmniDecoder(grammar=g)
    if name == "OMNI":
        g = OmniGrammar(); return g, OmniDecoder(grammar=g)
    raise KeyError(name)


ENCODERS = ("PVL", "ODL", "PDS3", "ISIS")


def make_encoder(name, **cfg):
    """`_wiring` is not an option of the library but of how the caller builds the encoder:
    with only a decoder, only a grammar, or both built separately - always the encoder's own
    default classes, so the result must be the encoder the documentation describes."""
    cfg = dict(cfg)
    wiring = cfg.pop("_wiring", None)
    G = {"PVL": PVLGrammar, "ODL": ODLGrammar, "PDS3": PDSGrammar, "ISIS": ISISGrammar}[name]
    D = {"PVL": PVLDecoder, "ODL": ODLDecoder, "PDS3": PDSLabelDecoder, "ISIS": PVLDecoder}[name]
    if wiring == "decoder-only":
        cfg["decoder"] = D(grammar=G())
    elif wiring == "decoder-with-its-default-grammar":
        cfg["decoder"] = D()             # for ISIS: a PVLDecoder over the plain PVL grammar
    elif wiring == "grammar-only":
        cfg["grammar"] = G()
    elif wiring == "both-separate":
        cfg["grammar"] = G()
        cfg["decoder"] = D(grammar=G())
    elif wiring == "both-shared":
        g = G()
        cfg["grammar"] = g
        cfg["decoder"] = D(grammar=g)
    return {"PVL": PVLEncoder, "ODL": ODLEncoder, "PDS3": PDSLabelEncoder,
            "ISIS": ISISEncoder}[name](**cfg)


def strict_parser_for_encoder(name, lexer_fn=None):
    """The strict reader of the same dialect (C01).  For ISIS the encoder's
    own pairing: PVLParser + ISISGrammar + PVLDecoder."""
    if name == "ISIS":
        g = ISISGrammar()
        return PVLParser(grammar=g, decoder=PVLDecoder(grammar=g), lexer_fn=lexer_fn)
    return make_parser(name, lexer_fn=lexer_fn)


WATCHDOG_S = float(os.environ.get("VERIF_WATCHDOG_S", "20"))
# set by the first worker that gives up after repeated confirmed hangs; every other
# worker (forked from this process) then stops at its next load
ABORT_FLAG = __import__("multiprocessing").RawValue("i", 0)


def _on_alarm(signum, frame):
    raise Budget()


def load_outcome(parser, text, factory=None):
    """Runs parser.parse(text) and classifies the outcome:
    ('ok', module) | ('doc', 'LexerError'|'ParseError', exc) |
    ('spin',) | ('bad', ExcName, exc).

    Two nets catch non-termination: the step budget of the counting lexer
    (deterministic; loops that keep asking for tokens) and, for loops that never
    touch the token stream, an interval timer whose handler raises the same
    BaseException (the library's `except Exception` blocks cannot swallow it).
    The timer is generous (30 s for parses that take milliseconds) so that load
    on the machine cannot turn it into a false alarm."""
    import signal
    use_timer = hasattr(signal, "setitimer") and __import__("threading").current_thread() is __import__("threading").main_thread()
    if use_timer:
        old = signal.signal(signal.SIGALRM, _on_alarm)
        signal.setitimer(signal.ITIMER_REAL, WATCHDOG_S + len(text) / 2000.0)
    try:
        m = parser.parse(text)
        return ("ok", m)
    except (LexerError, ParseError) as e:
        return ("doc", type(e).__name__, e)
    except Budget:
        return ("spin",)
    except RecursionError as e:
        return ("bad", "RecursionError", e)
    except Exception as e:  # noqa: BLE001
        return ("bad", type(e).__name__, e)
    finally:
        if use_timer:
            signal.setitimer(signal.ITIMER_REAL, 0)
            signal.signal(signal.SIGALRM, old)
