"""Module (value tree) alphabet for the encoder-side properties C01/C02/C07/C12,
and R4: the normalising comparator that implements exactly the differences
C01 allows.

A module literal is a vjson-encoded item list (see vjson / gen).
"""
import datetime as dt
import itertools
import re

from . import impl, vjson

UTC = dt.timezone.utc


def tz(minutes):
    return dt.timezone(dt.timedelta(minutes=minutes))


WORDS = ("lorem ipsum dolor sit amet consectetur adipiscing elit sed do eiusmod tempor incididunt ut "
         "labore et dolore magna aliqua ut enim ad minim veniam quis nostrud exercitation ullamco").split()


def long_string(n):
    out = ""
    i = 0
    while len(out) < n:
        out += ("" if not out else " ") + WORDS[i % len(WORDS)]
        i += 1
    return out[:n].rstrip()


STRINGS_CORE = ["", "abc", "ABC", "Abc_1", "a b", "it's", 'say "hi"', "NULL", "1", "2001-01-01", "a\nb", "END"]

STRINGS = STRINGS_CORE + [
    "a_", "_a", "a1", "Null", "null", "TRUE", "true", "FALSE", "False", "End", "end", "GROUP", "group", "OBJECT",
    "Object", "END_GROUP", "end_object", "BEGIN_GROUP", "1.5", "-7", "+3", "1e5", "16#FF#", "2#101#", "inf", "nan",
    "2001-001", "12:00", "12:00:60", "2001-01-01T12:00:00Z", "12:00+01", "+", "-", "--", " a", "a ", "a  b", "a\tb",
    "a\r\nb", "a-\nb", "a -\n b", "\n", " ", "both ' and \"", "/* c */", "a /* b", "*/", "#", "# c", "a#b", "a # b",
    "a+b", "x=y", "a = 1", "a,b", "(a)", "{a}", "<m>", "a;b", "a&b", "a|b", "a~b", "a!b", "a%b", "a[1]", "^a", "a:b",
    "a.b", "a-b", "x/y", "a*b", "café", "a\xa0b", "\xa0", "a\x01b", "a\x00b", "中", "a\x85b", "a\fb",
    "END\nx = 1", "\"", "'", "a'", "'a", "a\"", "-\n", "a-", "x-\ny",
    # bare-word candidates that only a more permissive decoder reads as something else
    "12:00-01", "12:00-1", "2001-01-01T12:00-01:30", "12:00:00.5-12", "23:59:60-01", "1:2", "2001-1-1", "12:00z",
    "a-\r\nb", "Jupi-\r\n  ter", "a-\n\n b", "a-\f b", "a-\n\tb", "a-\rb", "a-\n-\nb", "a -\r\n\r\n b",
    # dash, blanks, line break: NOT a continuation (only a dash directly before the line break is)
    "a - \nb", "a-\t\r\n b",
    "16#-7F#", "-16#7F#", "3#12#", "10#9#", "1_0", "0x10", "1e", "e5", ".e1", "1.e", "+.", "2001-366", "2000-366",
] + [long_string(n) for n in (35, 39, 40, 41, 45, 70, 78, 79, 80, 81, 90, 160)] + [
    "x" * 40, "x" * 41, "y" * 85, ("word " * 30).strip(), "a" * 30 + " " + "b" * 60,
] + [
    # every control character and every character Python (but not the grammars) counts as white space,
    # inside a string and at its edges
    "a" + chr(c) + "b" for c in list(range(0, 32)) + list(range(0x7f, 0xa2)) + [0xad, 0xff, 0x100, 0x1680, 0x2028, 0x3000] if chr(c) not in "\t\n\f\x00\x01\x85\xa0"
] + ["\x1erecord", "record\x1c", "\x00a", "a\x00", "\x7fa", "\x1f", "\x0b"] + [
    # very long lexemes: unquoted words, quoted text without a blank
    "x" * 1024, "x" * 1025, "w" * 3000, "Ab_" * 700, "q r " + "y" * 2000,
]

NUMBERS = [0, 1, -1, 7, 255, -255, 2 ** 63, -(2 ** 64), 0.0, -0.0, 1.5, -2.25, 1e-7, 1e16, 1e300, 0.1,
           123456.789, 1e22, 5e-324, True, False, None,
           -1e16, -1.5e+16, -1e300, -1e-7, -5e-324, -123456.789e10, 1e15, -1e15, 9007199254740993, 0.30000000000000004,
           10 ** 1100, -(10 ** 2000) - 7]
NONFINITE = [float("inf"), float("-inf"), float("nan")]      # only put to the default loader (C02 says "all modules")

DATES = [dt.date(1, 1, 1), dt.date(999, 12, 31), dt.date(1000, 1, 1), dt.date(2001, 2, 28), dt.date(9999, 12, 31)]
_T = [(12, 0, 0, 0), (12, 0, 30, 0), (1, 2, 3, 4000), (1, 2, 3, 400), (23, 59, 59, 999999), (0, 0, 0, 0)]
_Z = [None, UTC, tz(60), tz(-330), tz(-60)]
TIMES = [dt.time(*f, tzinfo=z) for f in _T for z in _Z]
DATETIMES = [dt.datetime(y, mo, d, *f, tzinfo=z) for (y, mo, d) in ((2001, 1, 1), (999, 12, 31), (2000, 2, 29))
             for f in _T[:4] for z in _Z]


def quantities():
    Q = impl.Quantity
    return [Q(1.5, "m"), Q(1, "m/s"), Q(2, "km**2"), Q(-3, "m**-1"), Q("s", "m"), Q([1, 2], "m"), Q(1, "a b"),
            Q(1, ""), Q(1.0, "deg C"), Q(None, "m"), Q(dt.date(2001, 1, 1), "d"), Q(1, "m**x"),
            Q(1.5, "m\t/ s"), Q(1, "a\tb"), Q(2, "m\ns"), Q(3, "<m>"), Q(4, "m>"), Q(5, "caf\u00e9")]


def simple_values():
    return list(NUMBERS) + list(STRINGS) + DATES + TIMES + DATETIMES + quantities()


CORE = [None, True, 0, -1, 1.5, "abc", "a b", "", "NULL", "it's", dt.date(2001, 2, 28), dt.time(12, 0, tzinfo=UTC)]

KEYS = ["k", "Key_1", "lower", "_k", "^_k", "ns:_k", "_", "__k__", "k__1", "^ptr", "ns:key", "K" * 30, "K" * 31, "bad key", "END", "a-b", "k.x", "1k", "k_", "",
        "g-", "12:00", "12:00-01", "2001-001", "NULL", "true", "group", "1", "1.5", "16#F#", "a+b", "a#b", "x/y",
        "a\"b", "it's", "end_group", "Begin_Object", "^" + "K" * 29, "^" + "K" * 30, "NS:" + "K" * 27, "NS:" + "K" * 28,
        "^NS:" + "K" * 27, "K" * 29 + "_"]


def modules(tier, nonfinite=False):
    """yields (name, item list in vjson form)"""
    enc = vjson.enc
    vals = simple_values() + (NONFINITE if nonfinite else [])
    G = lambda items: {"$": "group", "items": items}      # noqa: E731
    O = lambda items: {"$": "object", "items": items}     # noqa: E731
    for i, v in enumerate(vals):
        e = enc(v)
        yield "top", [["k", e]]
        yield "seq1", [["k", [e]]]
        yield "two", [["before", 1], ["k", e], ["after_it", "x"]]
        if _hashable(v):
            yield "set1", [["k", enc(frozenset([v]))]]
        yield "in-group", [["g", G([["k", e], ["j", 2]])], ["o", O([["a", 1]])]]
        yield "in-object-group", [["o", O([["g", G([["k", e]])], ["k", e]])]]
        yield "seq-nested", [["k", [[e], [1, e]]]]
    for v, w in itertools.product(CORE, repeat=2):
        yield "seq2", [["k", [enc(v), enc(w)]]]
        if _hashable(v) and _hashable(w) and not _same(v, w):
            yield "set2", [["k", enc(frozenset([v, w]))]]
    for k in KEYS:
        yield "key", [[k, 1], ["x", "y"]]
        yield "key-block", [[k, G([["a", 1]])], ["o", O([["b", 2]])]]
    # wrap-focused grid: element count x element kind x key length
    for n in range(1, 13):
        for kind in ("int", "word", "quoted", "float", "long", "hyphen", "qhyphen", "mixed", "negfloat"):
            el = {"int": 123456, "word": "abcdefgh", "quoted": "two words", "float": 1.25e-7,
                  "long": "x" * 30, "hyphen": "alpha-beta-gamma", "qhyphen": "map-projected data-set",
                  "negfloat": -1.5e+16}.get(kind)
            if kind == "mixed":
                els = [enc(x) for x in (["it's here", "A SYMBOL STRING", 'say "hi" now', "x > y", "a < b"] * 3)[:n]]
            else:
                els = [enc(el)] * n
            for key in ("k", "a_key_of_twenty_chars", "K" * 28):
                yield "wrap", [[key, els]]
                yield "wrap-in-group", [["g", G([[key, els]])], ["o", O([["a", 1]])]]
    # container trees with duplicate keys and groups next to same-named assignments
    from . import gen
    nmax = 3 if tier == "quick" else 4
    for n in range(0, nmax + 1):
        for f in gen.forests(n, ["a", "b"], ["g", "a"], [1]):
            yield "tree", f
    # the same trees with names of different lengths (alignment with duplicate names)
    for n in range(1, 4):
        for f in gen.forests(n, ["a", "long_name"], ["g", "long_name"], [1]):
            if any(k == "long_name" for k, _ in f) or n == 3:
                yield "tree-long", f
    # empty and degenerate containers
    for v in ([], [[]], [[], [1]], [[[]]], enc(frozenset()), [enc(frozenset())], enc(frozenset([frozenset()])),
              [1, [], "a b"], enc(impl.Quantity([], "m")), enc(impl.Quantity(frozenset([1]), "m"))):
        yield "empty", [["k", v], ["j", 1]]
        yield "empty-in-group", [["g", G([["k", v]])], ["o", O([])]]
    yield "blocks-only", [["g", G([])], ["o", O([["g", G([])]])], ["g", G([["o", O([])]])]]
    yield "long-key", [["K" * 30, "x y"], ["k", [enc("a b")] * 12], ["k" * 25, 1.5]]
    yield "long-key-block", [["g" * 30, G([["K" * 30, ["abc"] * 10]])], ["o", O([["k", 1]])]]
    # three-deep list, mixed
    yield "deep", [["k", [1, [2, [3, [4]]]]]]
    yield "mixed", [["a", 1], ["a", "x y"], ["g", G([["a", enc(dt.date(2001, 1, 1))], ["a", [1, 2]]])],
                    ["g", G([["^p", 5]])], ["o", O([["q", enc(impl.Quantity(1.5, "m"))]])]]


def _hashable(v):
    try:
        hash(v)
        return not isinstance(v, impl.Quantity) or _hashable(v.value)
    except TypeError:
        return False


def _same(v, w):
    try:
        return v == w
    except Exception:  # noqa: BLE001
        return False


# ---------------------------------------------------------------- configurations

BASE_CFG = {"indent": 2, "width": 80, "newline": None, "aggregation_end": True, "end_delimiter": None}
OPTIONS = {
    "indent": [0, 4, 1],
    "width": [20, 30, 40, 120],
    "newline": ["\n", "\r\n"],
    "aggregation_end": [False],
    "end_delimiter": [True, False],
    # PDS3 only
    "convert_group_to_object": [False],
    "tab_replace": [0],
    "symbol_single_quote": [False],
    "time_trailing_z": [False],
    # not a library option: how the caller wires grammar and decoder into the encoder (impl.make_encoder)
    "_wiring": ["decoder-only", "decoder-with-its-default-grammar", "grammar-only", "both-separate", "both-shared"],
}


def configs(encname, dev):
    """all configurations that deviate from the encoder's defaults in <= dev options"""
    names = ["indent", "width", "aggregation_end", "_wiring"]
    if encname != "PDS3":
        names += ["newline", "end_delimiter"]
    else:
        names += ["convert_group_to_object", "tab_replace", "symbol_single_quote", "time_trailing_z"]
    out = [{}]
    for k in range(1, dev + 1):
        for pos in itertools.combinations(names, k):
            for alt in itertools.product(*[OPTIONS[p] for p in pos]):
                out.append(dict(zip(pos, alt)))
    return out


# ---------------------------------------------------------------- R4

def fold(s):
    nodash = re.sub(r"-[\n\r\v\f][ \t\n\r\v\f]*", "", s)
    return re.sub(r"[ \t\n\r\f\v]+", " ", nodash.strip(" \t\n\r\f\v"))


def norm_value(v, rules):
    """canonical comparable form after applying the allowed normalisations"""
    if isinstance(v, bool) or v is None:
        return ("const", v)
    if isinstance(v, int):
        return ("int", v)
    if isinstance(v, float):
        return ("float", repr(v))
    if isinstance(v, str):
        s = str(v)
        if rules["fold"]:
            s = fold(s)
        if rules.get("tabs"):
            s = s.replace("\t", " " * rules["tabs"])
            if rules["fold"]:
                s = fold(s)
        return ("str", s)
    if isinstance(v, impl.Quantity):
        return ("quantity", norm_value(v.value, rules), ("str", str(v.units)))
    if isinstance(v, list):
        return ("list",) + tuple(norm_value(x, rules) for x in v)
    if isinstance(v, (set, frozenset)):
        return ("set",) + tuple(sorted({norm_value(x, rules) for x in v}, key=repr))
    if isinstance(v, dt.datetime):
        return ("datetime",) + _instant(v, rules)
    if isinstance(v, dt.date):
        return ("date", v.year, v.month, v.day)
    if isinstance(v, dt.time):
        return ("time",) + _time_instant(v, rules)
    return ("other", type(v).__name__, repr(v))


def _instant(v, rules):
    if v.tzinfo is None:
        if rules["default_utc"]:
            v = v.replace(tzinfo=UTC)
        else:
            return ("naive", v.isoformat())
    u = v.astimezone(UTC) if not (v.year == 1 or v.year == 9999) else v
    if u is v and v.utcoffset():
        # cannot shift at the edge of the calendar: compare local fields + offset
        return ("aware-edge", v.isoformat())
    return ("aware", u.year, u.month, u.day, u.hour, u.minute, u.second, u.microsecond)


def _time_instant(v, rules):
    if v.tzinfo is None:
        if rules["default_utc"]:
            return ("aware", v.hour, v.minute, v.second, v.microsecond)
        return ("naive", v.hour, v.minute, v.second, v.microsecond)
    off = v.tzinfo.utcoffset(None)
    total = (((v.hour * 60 + v.minute) * 60 + v.second) * 1000000 + v.microsecond
             - int(off.total_seconds()) * 1000000) % (24 * 3600 * 1000000)
    s, us = divmod(total, 1000000)
    return ("aware", s // 3600, (s // 60) % 60, s % 60, us)


def norm_module(m, rules, expect_conversion=False, top=True, new=False):
    """(class, items) with keys and values normalised.  rules['upper_keys']
    upper-cases parameter names (not block names)."""
    items = list(m) if isinstance(m, impl.OrderedMultiDict) else list(m.items())
    out = []
    for k, v in items:
        if isinstance(v, (impl.OrderedMultiDict, impl.pc.PVLMultiDict)) or type(v) is dict:
            out.append((("block", str(k)), norm_module(v, rules, top=False)))
        else:
            kk = str(k).upper() if rules["upper_keys"] else str(k)
            out.append((("param", kk), norm_value(v, rules)))
    cls = type(m).__name__
    if type(m) is dict:
        cls = "PVLObject" if not top else "PVLModule"
    return (cls, tuple(out))


def rules_for(reader):
    """reader: 'PVL' | 'ODL' | 'PDS3' | 'ISIS' (strict readers of C01) | 'OMNI' (C02)"""
    return {
        "fold": reader in ("ODL", "PDS3", "OMNI"),
        "default_utc": reader in ("PVL", "PDS3", "ISIS", "OMNI"),
        "upper_keys": False,        # set by the caller from the ENCODER (ODL/PDS3 upper-case names)
        "tabs": 0,
    }


def pds_expected_classes(m, encoder):
    """Applies PDSLabelEncoder's documented GROUP->OBJECT rule to a COPY of the
    normalised expectation: returns the set of top-level indices whose class
    becomes PVLObject, and (recursively) nested groups that are not valid PDS
    groups."""
    def invalid(g):
        items = list(g)
        if any(isinstance(v, impl.OrderedMultiDict) for _, v in items):
            return True
        keys = [k for k, _ in items]
        if len(keys) != len(set(keys)):
            return True
        for k, v in items:
            if str(k).startswith("^"):
                if isinstance(v, int) or (isinstance(v, impl.Quantity) and isinstance(v.value, int)):
                    return True
        return False
    return invalid
