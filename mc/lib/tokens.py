"""Abstract token alphabet, rendering to text, and conversion of reference
trees / real modules to one comparable canonical form."""
from . import impl, vjson
from .refgrammar import EMPTY

A = ("NAME", "a", None)
B = ("NAME", "b", None)
EQ = ("EQ", "=", None)
ONE = ("VAL", "1", 1)
QS = ("QUOTED", '"s"', "s")
LP = ("LP", "(", None)
RP = ("RP", ")", None)
LB = ("LB", "{", None)
RB = ("RB", "}", None)
COMMA = ("COMMA", ",", None)
SEMI = ("SEMI", ";", None)
UNITS = ("UNITS", "<m>", "m")
GROUP = ("BEGIN", "GROUP", "G")
OBJECT = ("BEGIN", "OBJECT", "O")
END_GROUP = ("ENDAGG", "END_GROUP", "G")
END_OBJECT = ("ENDAGG", "END_OBJECT", "O")
END = ("END", "END", None)
COMMENT = ("COMMENT", "/*c*/", None)

ALPHABET18 = [A, B, EQ, ONE, QS, LP, RP, LB, RB, COMMA, SEMI, UNITS,
              GROUP, OBJECT, END_GROUP, END_OBJECT, END, COMMENT]
# a core for longer sequences: one name, the structural tokens, one block kind
ALPHABET11 = [A, EQ, ONE, LP, RP, COMMA, SEMI, UNITS, GROUP, END_GROUP, END]

MODE = {"PVL": "pvl", "ODL": "odl", "PDS3": "odl", "ISIS": "pvl", "OMNI": "pvl"}


def render(seq, sep=" "):
    return sep.join(t[1] for t in seq)


def tree_canon(items, cls="PVLModule"):
    return (cls,) + tuple((("str", k), node_canon(v)) for k, v in items)


def node_canon(v):
    if v == EMPTY:
        return ("empty",)
    if isinstance(v, tuple) and v:
        if v[0] == "SEQ":
            return ("list",) + tuple(node_canon(x) for x in v[1])
        if v[0] == "SET":
            return ("set",) + tuple(sorted({node_canon(x) for x in v[1]}, key=repr))
        if v[0] == "Q":
            return ("quantity", node_canon(v[1]), ("str", v[2]))
        if v[0] == "G":
            return tree_canon(v[1], "PVLGroup")
        if v[0] == "O":
            return tree_canon(v[1], "PVLObject")
    return loose(v)


def loose(v):
    """canonical form of a real value with the comparisons the parser-side
    properties do not settle removed: set vs frozenset; placeholder line."""
    c = vjson.canon(v)
    return _loosen(c)


def _loosen(c):
    if not isinstance(c, tuple) or not c:
        return c
    if c[0] in ("set", "frozenset"):
        return ("set",) + tuple(sorted({_loosen(x) for x in c[1:]}, key=repr))
    if c[0] == "empty":
        return ("empty",)
    if c[0] in ("str", "int", "float", "bool", "none", "decimal", "date", "time", "datetime"):
        return c
    return (c[0],) + tuple(_loosen(x) for x in c[1:])


def damage(seq, alphabet):
    """All single token-level damages of seq: delete, duplicate, swap adjacent,
    replace by any alphabet token, truncate."""
    n = len(seq)
    out = []
    for i in range(n):
        out.append(("del", i, seq[:i] + seq[i + 1:]))
        out.append(("dup", i, seq[:i + 1] + seq[i:]))
        if i + 1 < n:
            out.append(("swap", i, seq[:i] + [seq[i + 1], seq[i]] + seq[i + 2:]))
        for t in alphabet:
            if t != seq[i]:
                out.append(("rep", i, seq[:i] + [t] + seq[i + 1:]))
        if i > 0:
            out.append(("trunc", i, seq[:i]))
    return out
