"""Abstract token alphabet, rendering to text, and conversion of reference
trees / real modules to one comparable canonical form."""
from . import impl, vjson
from .refgrammar import EMPTY

A = ("NAME", "a", None)
B = ("NAME", "b", None)
EQ = ("EQ", "=", None)
ONE = ("VAL", "1", 1)
QS = ("QUOTED", '"s"', "s")
LP = ("LP", "(", None)
RP = ("RP", ")", None)
LB = ("LB", "{", None)
RB = ("RB", "}", None)
COMMA = ("COMMA", ",", None)
SEMI = ("SEMI", ";", None)
UNITS = ("UNITS", "<m>", "m")
GROUP = ("BEGIN", "GROUP", "G")
OBJECT = ("BEGIN", "OBJECT", "O")
END_GROUP = ("ENDAGG", "END_GROUP", "G")
END_OBJECT = ("ENDAGG", "END_OBJECT", "O")
END = ("END", "END", None)
COMMENT = ("COMMENT", "/*=*/", None)      # a comment that contains an equals sign
# lexically damaged tokens: an unterminated quoted string / units expression
# swallows the rest of the text unless a later token happens to close it
BADQ = ("BADQ", '"s', None)
BADU = ("BADU", "<m", None)
BADQ2 = ("BADQ", "\"s'", None)         # opened with one quote character, "closed" with the other
BADC = ("BADC", "/* c", None)          # an unterminated comment

ALPHABET18 = [A, B, EQ, ONE, QS, LP, RP, LB, RB, COMMA, SEMI, UNITS,
              GROUP, OBJECT, END_GROUP, END_OBJECT, END, COMMENT]
BEGIN_GROUP = ("BEGIN", "BEGIN_GROUP", "G")      # not a keyword of the ISIS grammar: a plain name there
ALPHABET20 = ALPHABET18 + [BADQ, BADU]
ALPHABET21 = ALPHABET20 + [BEGIN_GROUP]
ALPHABET23 = ALPHABET21 + [BADQ2, BADC]


def for_dialect(seq, dialect):
    """the abstract token list as the dialect's grammar reads it"""
    if dialect != "ISIS":
        return seq
    return [("NAME", t[1], None) if t[1] in ("BEGIN_GROUP", "BEGIN_OBJECT") else t for t in seq]
# a core for longer sequences: one name, the structural tokens, one block kind
ALPHABET11 = [A, EQ, ONE, LP, RP, COMMA, SEMI, UNITS, GROUP, END_GROUP, END, BADU]

MODE = {"PVL": "pvl", "ODL": "odl", "PDS3": "odl", "ISIS": "pvl", "OMNI": "pvl", "ISISx": "pvl"}


def render(seq, sep=" "):
    return sep.join(t[1] for t in seq)


_TIGHT = ("EQ", "COMMA", "LP", "RP", "LB", "RB", "SEMI")


def render_lines(seq):
    """every token on its own line, the text ends with a line end"""
    return "\n".join(t[1] for t in seq) + "\n"


def render_compact(seq):
    """No white space wherever the grammar makes it optional (around '=', ',',
    brackets, ';', before units); one space elsewhere."""
    out = []
    for i, t in enumerate(seq):
        if i > 0:
            left = seq[i - 1]
            tight = left[0] in _TIGHT or t[0] in _TIGHT or t[0] in ("UNITS", "BADU")
            if left[0] in ("BADQ", "BADU", "BADC", "COMMENT") or t[0] in ("COMMENT", "BADC"):
                tight = False
            out.append("" if tight else " ")
        out.append(t[1])
    return "".join(out)


def tree_canon(items, cls="PVLModule"):
    return (cls,) + tuple((("str", k), node_canon(v)) for k, v in items)


def node_canon(v):
    if v == EMPTY:
        return ("empty",)
    if isinstance(v, tuple) and v:
        if v[0] == "SEQ":
            return ("list",) + tuple(node_canon(x) for x in v[1])
        if v[0] == "SET":
            return ("set",) + tuple(sorted({node_canon(x) for x in v[1]}, key=repr))
        if v[0] == "Q":
            return ("quantity", node_canon(v[1]), ("str", v[2]))
        if v[0] == "G":
            return tree_canon(v[1], "PVLGroup")
        if v[0] == "O":
            return tree_canon(v[1], "PVLObject")
    return loose(v)


def loose(v):
    """canonical form of a real value with the comparisons the parser-side
    properties do not settle removed: set vs frozenset; placeholder line."""
    c = vjson.canon(v)
    return _loosen(c)


def _loosen(c):
    if not isinstance(c, tuple) or not c:
        return c
    if c[0] in ("set", "frozenset"):
        return ("set",) + tuple(sorted({_loosen(x) for x in c[1:]}, key=repr))
    if c[0] == "empty":
        return ("empty",)
    if c[0] in ("str", "int", "float", "bool", "none", "decimal", "date", "time", "datetime"):
        return c
    return (c[0],) + tuple(_loosen(x) for x in c[1:])


def damage(seq, alphabet):
    """All single token-level damages of seq: delete, duplicate, swap adjacent,
    replace by any alphabet token, truncate."""
    n = len(seq)
    out = []
    for i in range(n):
        out.append(("del", i, seq[:i] + seq[i + 1:]))
        out.append(("dup", i, seq[:i + 1] + seq[i:]))
        if i + 1 < n:
            out.append(("swap", i, seq[:i] + [seq[i + 1], seq[i]] + seq[i + 2:]))
        for t in alphabet:
            if t != seq[i]:
                out.append(("rep", i, seq[:i] + [t] + seq[i + 1:]))
        if i > 0:
            out.append(("trunc", i, seq[:i]))
    return out
