"""Running the five loader configurations on a text under the step budget."""
from . import impl

_CACHE = {}


def parser_for(name):
    """One parser per dialect per process, with a counting lexer.  (Reuse is
    what C16 verifies; a violating case is always re-run in a fresh process.)"""
    p = _CACHE.get(name)
    if p is None:
        f = impl.LexerFactory()
        p = (impl.make_parser(name, lexer_fn=f), f)
        _CACHE[name] = p
    return p


def outcome(name, text):
    """('ok', module) | ('doc', 'LexerError'|'ParseError', exc) | ('spin',) |
    ('bad', ExcName, exc).  A budget hit is re-run with a 20x budget before it
    is called a spin."""
    p, f = parser_for(name)
    f.factor = 1
    r = impl.load_outcome(p, text)
    if r[0] == "spin":
        f.factor = 20
        r = impl.load_outcome(p, text)
        f.factor = 1
    return r


def brief(r):
    if r[0] == "ok":
        return "ok"
    if r[0] == "doc":
        return r[1]
    if r[0] == "spin":
        return "SPIN"
    return r[1]
