"""Running the five loader configurations on a text under the step budget."""
from . import impl

_CACHE = {}
SPIN_LOG = []          # confirmed hangs in this process: (dialect, text)
SPIN_LIMIT = 3


def parser_for(name):
    """One parser per dialect per process, with a counting lexer.  (Reuse is
    what C16 verifies; a violating case is always re-run in a fresh process.)"""
    p = _CACHE.get(name)
    if p is None:
        f = impl.LexerFactory()
        p = (impl.make_parser(name, lexer_fn=f), f)
        _CACHE[name] = p
    return p


def outcome(name, text):
    """('ok', module) | ('doc', 'LexerError'|'ParseError', exc) | ('spin',) |
    ('bad', ExcName, exc).  A budget hit is re-run with a 20x budget before it
    is called a spin."""
    if len(SPIN_LOG) > SPIN_LIMIT or impl.ABORT_FLAG.value:
        raise impl.AbortShard()
    p, f = parser_for(name)
    f.factor = 1
    r = impl.load_outcome(p, text)
    if r[0] == "spin":
        f.factor = 20
        keep = impl.WATCHDOG_S
        impl.WATCHDOG_S = min(keep, 10.0)     # the first net already waited the full time
        try:
            r = impl.load_outcome(p, text)
        finally:
            impl.WATCHDOG_S = keep
        f.factor = 1
        if r[0] == "spin":
            # the tree under test does hang: do not spend half a minute on every further case
            impl.WATCHDOG_S = min(impl.WATCHDOG_S, 4.0)
            SPIN_LOG.append((name, text))
            if len(SPIN_LOG) > SPIN_LIMIT:
                impl.ABORT_FLAG.value = 1
                raise impl.AbortShard()
    return r


def brief(r):
    if r[0] == "ok":
        return "ok"
    if r[0] == "doc":
        return r[1]
    if r[0] == "spin":
        return "SPIN"
    return r[1]


def dialect_order(key, dialects=None):
    """The order in which one input is put to the loader configurations inside a
    process: forward for half of the inputs, reversed for the other half (a
    deterministic function of the input), so that state leaking from one
    configuration's classes to another's is exercised in both directions."""
    ds = list(dialects or impl.DIALECTS)
    h = sum(ord(c) for c in key) + len(key) if isinstance(key, str) else int(key)
    return ds if h % 2 == 0 else list(reversed(ds))


def run_prior(case, text):
    """Replays only: first put the text to the configurations that saw it before in the
    recorded process."""
    for d in case.get("prior_dialects", []):
        outcome(d, text)
