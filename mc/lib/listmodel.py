"""R1 - the reference model of the ordered multi-dict: a plain Python list of
(key, value) pairs.  Every documented operation is a few lines on the list.

Operations are JSON lists, e.g. ["append","a",1]; `menu(n, keys, vals)` is the
finite menu offered in a state whose list has n pairs (simplest first).
"""

LOOKUP = ("lookup",)          # the operation must raise a LookupError
MISSING = "<missing>"
DEFAULT = "<D>"


def menu(n, keys, vals):
    ops = []
    k0 = keys[0]
    for k in keys:
        for v in vals:
            ops.append(["append", k, v])
            ops.append(["setitem", k, v])
            ops.append(["setdefault", k, v])
            ops.append(["update_dict", k, v])
            ops.append(["update_pairs", k, v])
            ops.append(["update_kw", k, v])
            ops.append(["extend_list", k, v])
            ops.append(["extend_list2", k, v])
            ops.append(["extend_dict", k, v])
            ops.append(["extend_md", k, v])
            ops.append(["extend_kw", k, v])
            ops.append(["extend_live", k, v])
            ops.append(["construct_from", k, v])
    for k in keys:
        ops.append(["delitem", k])
        ops.append(["popk", k])
        ops.append(["popkd", k])
        ops.append(["popall", k])
        ops.append(["popalld", k])
        ops.append(["discard", k])
        ops.append(["setdefault0", k])
    ops += [["pop"], ["popitem"], ["clear"]]
    ops.append(["update_pairs2", keys[0], vals[0], keys[-1], vals[-1]])
    ops.append(["update_pairs2", keys[0], vals[0], keys[0], vals[-1]])
    for i in range(-(n + 1), n + 2):
        for k in keys:
            for v in vals:
                ops.append(["insert3", i, k, v])
                ops.append(["insert_pair", i, k, v])
                ops.append(["insert_klist", i, k, v])
                ops.append(["insert_dict", i, k, v])
                ops.append(["insert_list2", i, k, v])
                ops.append(["insert_list2same", i, k, v])
                ops.append(["insert_list1", i, k, v])
    for ref in keys:
        for inst in (0, 1, -1):
            for k in keys:
                for v in vals:
                    ops.append(["insert_after", ref, k, v, inst])
                    ops.append(["insert_before", ref, k, v, inst])
            ops.append(["insert_after_list2", ref, k0, vals[0], inst])
            ops.append(["insert_before_list2", ref, k0, vals[0], inst])
    return ops


def second_pair(k, v, keys, vals):
    """The fixed second pair used by the two-pair argument forms."""
    return (keys[-1], vals[-1])


def _setitem(L, k, v):
    ks = [x for x, _ in L]
    if k not in ks:
        L.append((k, v))
        return
    i = ks.index(k)
    L[:] = L[:i] + [(k, v)] + [p for p in L[i + 1:] if p[0] != k]


def _slice_insert(L, i, pairs):
    # "insert places the pairs at the index" - for every integer index,
    # negative ones included, exactly what list slice insertion does.
    L[i:i] = list(pairs)


def apply(L, op, keys, vals):
    """Mutates L.  Returns ('ok', value) or LOOKUP.  For LOOKUP the list is
    left unchanged."""
    n = op[0]
    ks = [k for k, _ in L]
    if n == "append":
        L.append((op[1], op[2])); return ("ok", None)
    if n in ("setitem", "update_dict", "update_pairs", "update_kw"):
        _setitem(L, op[1], op[2]); return ("ok", None)
    if n == "update_pairs2":
        _setitem(L, op[1], op[2]); _setitem(L, op[3], op[4]); return ("ok", None)
    if n in ("setdefault", "setdefault0"):
        k = op[1]; v = op[2] if n == "setdefault" else None
        if k in ks:
            return ("ok", L[ks.index(k)][1])
        L.append((k, v)); return ("ok", v)
    if n in ("extend_list", "extend_dict", "extend_kw"):
        L.append((op[1], op[2])); return ("ok", None)
    if n == "extend_list2":
        L.extend([(op[1], op[2]), second_pair(op[1], op[2], keys, vals)]); return ("ok", None)
    if n == "extend_md":
        L.extend([(op[1], op[2]), (op[1], vals[-1])]); return ("ok", None)
    if n == "extend_live":
        # extend from a second live container, then both go their own way
        L.extend([(op[1], op[2]), (op[1], vals[-1])]); L.append((op[1], vals[0])); return ("ok", None)
    if n == "construct_from":
        # a second container is built from this one and then changed: nothing happens here
        return ("ok", None)
    if n in ("insert3", "insert_pair", "insert_klist", "insert_dict", "insert_list1"):
        _slice_insert(L, op[1], [(op[2], op[3])]); return ("ok", None)
    if n == "insert_list2":
        _slice_insert(L, op[1], [(op[2], op[3]), second_pair(op[2], op[3], keys, vals)])
        return ("ok", None)
    if n == "insert_list2same":
        _slice_insert(L, op[1], [(op[2], op[3]), (op[2], op[3])]); return ("ok", None)
    if n in ("insert_after", "insert_before", "insert_after_list2", "insert_before_list2"):
        ref, k, v, inst = op[1], op[2], op[3], op[4]
        idxs = [i for i, kk in enumerate(ks) if kk == ref]
        if not idxs:
            return LOOKUP
        try:
            i = idxs[inst]
        except IndexError:
            return LOOKUP
        pairs = [(k, v)]
        if n.endswith("list2"):
            pairs.append(second_pair(k, v, keys, vals))
        _slice_insert(L, i + 1 if n.startswith("insert_after") else i, pairs)
        return ("ok", None)
    if n in ("delitem", "popk", "popall", "discard", "popkd", "popalld"):
        k = op[1]
        if k not in ks:
            if n == "discard":
                return ("ok", None)
            if n in ("popkd", "popalld"):
                return ("ok", DEFAULT)
            return LOOKUP
        vs = [v for kk, v in L if kk == k]
        L[:] = [p for p in L if p[0] != k]
        if n in ("delitem", "discard"):
            return ("ok", None)
        return ("ok", ("first-or-all", vs))
    if n in ("pop", "popitem"):
        if not L:
            return LOOKUP
        return ("ok", L.pop())
    if n == "clear":
        L.clear(); return ("ok", None)
    raise ValueError(op)


def ret_matches(model_ret, impl_ret):
    """pop(key)/popall(key) must hand back the value(s) of the key: the first
    value (MutableMapping.pop contract) or the list of all of them."""
    if isinstance(model_ret, tuple) and model_ret and model_ret[0] == "first-or-all":
        vs = model_ret[1]
        return impl_ret == vs[0] or impl_ret == vs
    if isinstance(model_ret, tuple) and not isinstance(impl_ret, tuple):
        return False
    return model_ret == impl_ret and type(model_ret) is type(impl_ret)


def observe(L, keys, vals):
    """Everything the public accessors must show for list L."""
    n = len(L)
    probe = list(keys) + ["z"]
    vprobe = list(vals) + [99]
    out = {}
    out["iter"] = list(L)
    out["len"] = n
    out["idx"] = [L[i] if -n <= i < n else "IndexError" for i in range(-n - 1, n + 1)]
    out["slices"] = [L[0:n], L[1:], L[:-1], L[::2], L[::-1], L[n:], L[-2:]]
    K = [k for k, _ in L]
    V = [v for _, v in L]
    out["keys"] = (K, n, [K[i] for i in range(n)],
                   [k in K for k in probe],
                   [K.index(k) if k in K else "ValueError" for k in probe])
    out["values"] = (V, n, [V[i] for i in range(n)],
                     [v in V for v in vprobe],
                     [V.index(v) if v in V else "ValueError" for v in vprobe])
    out["items"] = (list(L), n, [L[i] for i in range(n)],
                    [(k, v) in L for k in probe for v in vprobe],
                    [L.index((k, v)) if (k, v) in L else "ValueError"
                     for k in probe for v in vprobe])
    for k in probe:
        vs = [v for kk, v in L if kk == k]
        idxs = [i for i, kk in enumerate(K) if kk == k]
        out["in:" + k] = bool(vs)
        out["getitem:" + k] = vs[0] if vs else "LookupError"
        out["get:" + k] = vs[0] if vs else None
        out["getd:" + k] = vs[0] if vs else DEFAULT
        out["getall:" + k] = vs if vs else MISSING
        for inst in (0, 1, -1, 2):
            try:
                out["key_index:%s:%d" % (k, inst)] = idxs[inst] if idxs else "LookupError"
            except IndexError:
                out["key_index:%s:%d" % (k, inst)] = "LookupError"
    return out
