"""R5 - independent line-level reader of encoder output for C12.  Shares nothing
with pvl's lexer/parser.  Module-directed: it walks the module and demands one
statement per item, in order, so a lost name or a swallowed statement cannot
hide.  Raises Bad(rule, detail) at the first rule broken.
"""
import re

from . import impl


class Bad(Exception):
    def __init__(self, rule, detail=""):
        Exception.__init__(self, rule, detail)
        self.rule = rule
        self.detail = detail


ID = r"[A-Z][A-Z0-9_]*"
KW = {"PVL": ("BEGIN_GROUP", "END_GROUP", "BEGIN_OBJECT", "END_OBJECT"),
      "ODL": ("GROUP", "END_GROUP", "OBJECT", "END_OBJECT"),
      "PDS3": ("GROUP", "END_GROUP", "OBJECT", "END_OBJECT"),
      "ISIS": ("Group", "End_Group", "Object", "End_Object")}
DEFAULTS = {"PVL": {"newline": "\n", "end_delimiter": True},
            "ODL": {"newline": "\r\n", "end_delimiter": False},
            "PDS3": {"newline": "\r\n", "end_delimiter": False},
            "ISIS": {"newline": "\n", "end_delimiter": False}}


def odl_name_ok(n):
    m = re.fullmatch(r"\^?(%s)(?::(%s))?" % (ID, ID), n)
    if not m:
        return False
    return not any(p and p.endswith("_") for p in m.groups()) and len(n) <= 30


def effective(dialect, cfg):
    e = {"indent": 2, "width": 80, "aggregation_end": True}
    e.update(DEFAULTS[dialect])
    for k, v in cfg.items():
        if v is not None:
            e[k] = v
    if dialect == "PDS3":
        e["newline"], e["end_delimiter"] = "\r\n", False
    return e


def split_lines(text, nl, units_content=False):
    """physical lines; a line break inside a quoted string is content"""
    lines, cur, q, i = [], "", None, 0
    while i < len(text):
        c = text[i]
        if q:
            cur += c
            if c == q:
                q = None
            i += 1
            continue
        if c in "\"'":
            q = c
            cur += c
            i += 1
            continue
        if c == "<" and units_content:
            q = ">"             # white space inside a units expression is content as well
            cur += c
            i += 1
            continue
        if text.startswith(nl, i):
            lines.append(cur)
            cur = ""
            i += len(nl)
            continue
        if c in "\r\n":
            raise Bad("line-end", "bare %r outside quotes at offset %d (configured line end %r)" % (c, i, nl))
        cur += c
        i += 1
    if q:
        raise Bad("quote", "unterminated quoted string")
    return lines, cur


def outside_quotes(text):
    """text with the contents of quoted strings blanked"""
    out, q = [], None
    for c in text:
        if q:
            if c == q:
                q = None
                out.append(c)
            else:
                out.append("\x00" if c not in "\r\n" else c)
        else:
            if c in "\"'":
                q = c
            out.append(c)
    return "".join(out)


def check(text, module, dialect, cfg):
    e = effective(dialect, cfg)
    nl, ind, width = e["newline"], e["indent"], e["width"]
    delim = ";" if e["end_delimiter"] else ""
    odl = dialect in ("ODL", "PDS3")
    kw = KW[dialect]
    # character set
    for c in text:
        o = ord(c)
        if odl and o > 127:
            raise Bad("charset", "U+%04X" % o)
        if not odl and (o > 255 or o <= 8 or 14 <= o <= 31 or 127 <= o <= 159):
            raise Bad("charset", "U+%04X" % o)
    if dialect == "PDS3" and cfg.get("tab_replace", 4) and "\t" in text:
        raise Bad("tab", "tab character in PDS3 output")
    lines, tail = split_lines(text, nl, units_content=not odl)
    if odl:
        if tail != "":
            raise Bad("final-line-end", "text does not end with a line end after END")
    else:
        lines.append(tail)
    bare = outside_quotes(text)
    if odl:
        # single-quoted symbol strings stay on one line
        for m in re.finditer(r"'[^']*'", re.sub(r'"[^"]*"', '""', text, flags=re.S), flags=re.S):
            if "\n" in m.group(0) or "\r" in m.group(0):
                raise Bad("symbol-one-line", m.group(0)[:30])
        # units only after numbers
        for m in re.finditer(r"(\S+)\s*<[^>]*>", bare):
            tok = m.group(1).lstrip("({").rstrip(",")
            if not re.fullmatch(r"[+-]?(\d+\.?\d*|\.\d+)([eE][+-]?\d+)?|\d+#[+-]?[0-9A-Fa-f]+#", tok):
                raise Bad("units-after-non-number", m.group(0)[:40])
        if not delim and re.search(r";[ \t]*(\r\n|\n|$)", bare):
            raise Bad("statement-delimiter", "';' at a line end although delimiters are off")
    pos = [0]

    def skip_blank():
        # an empty line is white space, not a statement (the encoders write one for an empty block)
        while pos[0] < len(lines) and lines[pos[0]].strip(" ") == "":
            pos[0] += 1

    def expect_block(mod, level):
        prefix = " " * (ind * level)
        items = list(mod.items()) if not isinstance(mod, impl.OrderedMultiDict) else list(mod)
        single = []
        for idx, (k, v) in enumerate(items):
            skip_blank()
            if pos[0] >= len(lines):
                raise Bad("missing-statement", "no statement for %r" % (k,))
            line = lines[pos[0]]
            if hasattr(v, "items") and not isinstance(v, impl.Quantity):
                is_group = isinstance(v, impl.PVLGroup)
                for b, en in ((kw[0], kw[1]), (kw[2], kw[3])):
                    if line == "%s%s = %s%s" % (prefix, b, k, delim):
                        if dialect != "PDS3" and (b == kw[0]) != is_group:
                            raise Bad("block-keyword", "%r written with %s" % (type(v).__name__, b))
                        pos[0] += 1
                        expect_block(v, level + 1)
                        skip_blank()
                        if pos[0] >= len(lines):
                            raise Bad("block-not-closed", k)
                        want = ("%s%s = %s%s" % (prefix, en, k, delim)) if e["aggregation_end"] \
                            else "%s%s%s" % (prefix, en, delim)
                        if lines[pos[0]] != want:
                            raise Bad("end-statement", "got %r, expected %r" % (lines[pos[0]][:60], want))
                        pos[0] += 1
                        break
                else:
                    raise Bad("begin-statement", "got %r for block %r (keywords %r)" % (line[:60], k, kw[::2]))
            else:
                name = k.upper() if odl else k
                m = re.match(r"( *)(\S+)( *)=( ?)(.*)$", line, flags=re.S)
                if not m or m.group(2) != name:
                    raise Bad("statement-start", "got %r, expected a statement for %r" % (line[:60], name))
                if m.group(1) != prefix:
                    raise Bad("indent", "%r at nesting level %d, indent %d" % (line[:40], level, ind))
                if odl and not odl_name_ok(name):
                    raise Bad("odl-name", name)
                start = pos[0]
                pos[0] += 1
                nxt = items[idx + 1] if idx + 1 < len(items) else None

                def is_next(ln):
                    if nxt is not None:
                        nk, nv = nxt
                        if hasattr(nv, "items") and not isinstance(nv, impl.Quantity):
                            return ln in ("%s%s = %s%s" % (prefix, kw[0], nk, delim),
                                          "%s%s = %s%s" % (prefix, kw[2], nk, delim))
                        nname = nk.upper() if odl else nk
                        mm = re.match(r"( *)(\S+) *=", ln)
                        return bool(mm) and mm.group(1) == prefix and mm.group(2) == nname
                    if level == 0:
                        return ln == "END" + delim
                    up = " " * (ind * (level - 1))
                    return ln.startswith(up + kw[1]) or ln.startswith(up + kw[3])
                while pos[0] < len(lines) and not is_next(lines[pos[0]]):
                    pos[0] += 1
                body = lines[start:pos[0]]
                if delim and not body[-1].endswith(delim):
                    raise Bad("delimiter", "statement %r does not end with %r" % (body[-1][-30:], delim))
                one_line = len(body) == 1 and "\n" not in body[0] and "\r" not in body[0]
                if one_line and len(body[0]) + len(nl) <= width:
                    single.append((body[0].index("=", len(prefix) + len(name)), body[0], name))
        if len({c for c, _, _ in single}) > 1:
            # read in the encoder's favour: a statement is exempt when padding its name to
            # the siblings' column would push it past the width
            col = max(c for c, _, _ in single)
            off = [(c, ln) for c, ln, _ in single if c != col and len(ln) + (col - c) + len(nl) <= width]
            if off:
                raise Bad("alignment", "'=' in column %d but siblings in %d: %r" % (off[0][0], col, off[0][1][:50]))
    expect_block(module, 0)
    skip_blank()
    if pos[0] >= len(lines) or lines[pos[0]] != "END" + delim:
        raise Bad("END-line", "expected %r, got %r" % ("END" + delim, lines[pos[0]:pos[0] + 2]))
    if pos[0] != len(lines) - 1:
        raise Bad("after-END", "text after the END line: %r" % (lines[pos[0] + 1:][:2],))
    return True
