"""Shared runner: process pool, accumulators, violation handling (shrink,
known-finding match, fresh-interpreter confirmation, replay files), evidence.

A property harness is a module mc.props.cNN with
    LEVEL        'model_checking' | 'exploration' | 'fault_enumeration'
    run(ctx)     -> dict(coverage=..., violations=[...], assumptions=[...])
    replay(case) -> list of violation dicts (empty list: the case holds)
    optionally   candidates(case) -> iterable of simpler cases (for shrinking)
A violation dict is {case: <json-able>, diagnosis: str, detail: str}; the
harness may add 'sig' (signature used for known-finding matching; default is
diagnosis + canonical JSON of the case).
"""
import collections
import hashlib
import importlib
import json
import multiprocessing
import os
import random
import subprocess
import sys
import time

HERE = os.path.dirname(os.path.dirname(os.path.abspath(__file__)))
# where evidence/ and replays/ are written: /verif itself, except for runs against a deliberately
# broken scratch tree (tools/check_seeds.sh), which must not overwrite the evidence of the real tree
OUT = os.environ.get("VERIF_OUT") or HERE
NPROC = int(os.environ.get("VERIF_NPROC", "16"))
MAX_VIOL_PER_SHARD = 60


_LAST_ACC = [None]
# VERIF_FAILFAST=1 (used by tools/check_seeds.sh, where only "is it detected at all" is asked): stop handing
# out shards as soon as one has reported a violation, report that one unshrunk.  Never set by MANIFEST commands.
FAILFAST = bool(os.environ.get("VERIF_FAILFAST"))


_KNOWN_NOW = [None]


def enough(acc):
    """fail-fast only: a violation that is not a listed known finding has been seen"""
    if not FAILFAST or not acc.vio_total:
        return False
    known = _KNOWN_NOW[0] or {}
    return any(sig_of(v) not in known for v in acc.violations)


def abortable(fn):
    """Shard functions wrapped with this return what they had accumulated when the
    process gives up after several confirmed hangs (mc.lib.impl.AbortShard), plus the
    hangs themselves as violations."""
    import functools

    @functools.wraps(fn)
    def wrapper(spec):
        from .lib import impl, loaders
        try:
            return fn(spec)
        except impl.AbortShard:
            acc = _LAST_ACC[0] if _LAST_ACC[0] is not None else Acc()
            acc.extra["aborted_shards"] += 1
            have = {(v["case"].get("dialect"), v["case"].get("text")) for v in acc.violations}
            for d, text in loaders.SPIN_LOG:
                if (d, text) not in have:
                    acc.violation({"generic": "spin", "dialect": d, "text": text}, "spin:" + d,
                                  "load does not terminate: %r" % text[:120], sig="spin|%s|%s" % (d, text[:40]))
            if hasattr(acc, "new"):
                acc.new = []
            return acc
    return wrapper


class Acc:
    """Mergeable accumulator returned by every shard."""

    def __init__(self):
        _LAST_ACC[0] = self
        self.n = 0                 # executions of the real code
        self.nontrivial = 0        # distinct non-trivial cases (shards are disjoint)
        self.outcomes = collections.Counter()
        self.violations = []
        self.vio_total = 0
        self.samples = []
        self.states = 0
        self.transitions = 0
        self.traces = 0
        self.extra = collections.Counter()
        self.sets = collections.defaultdict(set)   # named small sets (coverage accounting)

    def violation(self, case, diagnosis, detail="", sig=None):
        self.vio_total += 1
        if len(self.violations) < MAX_VIOL_PER_SHARD:
            v = {"case": case, "diagnosis": diagnosis, "detail": str(detail)[:600]}
            if sig is not None:
                v["sig"] = sig
            self.violations.append(v)

    def sample(self, s, cap=3):
        if len(self.samples) < cap:
            self.samples.append(s)

    def merge(self, o):
        self.n += o.n
        self.nontrivial += o.nontrivial
        self.outcomes.update(o.outcomes)
        self.vio_total += o.vio_total
        self.violations.extend(o.violations)
        if len(self.samples) < 12:
            self.samples.extend(o.samples[: 12 - len(self.samples)])
        self.states += o.states
        self.transitions += o.transitions
        self.traces += o.traces
        self.extra.update(o.extra)
        for k, s in o.sets.items():
            self.sets[k] |= s
        return self


def _call(args):
    fn, spec = args
    return abortable(fn)(spec)


class Ctx:
    def __init__(self, pid, tier, seed):
        self.pid = pid
        self.tier = tier
        self.seed = seed
        self.t0 = time.time()
        self._pool = None
        self.notes = []
        self.aborted = 0           # shards that gave up after repeated confirmed hangs
        self.failfast_stopped = False

    @property
    def quick(self):
        return self.tier == "quick"

    def pool(self):
        if self._pool is None:
            self._pool = multiprocessing.get_context("fork").Pool(NPROC)
        return self._pool

    def pmap(self, fn, specs, into=None, chunksize=1):
        """Run fn(spec) for every spec on the pool, merge the Accs.  VERIF_SEED
        only permutes the visiting order of the same finite list."""
        specs = list(specs)
        random.Random(self.seed).shuffle(specs)
        acc = into if into is not None else Acc()
        if self.aborted:
            return acc             # the code under test hangs: reported, the rest is skipped
        if NPROC <= 1 or len(specs) <= 1:
            for s in specs:
                r = abortable(fn)(s)
                self.aborted += r.extra.get("aborted_shards", 0)
                acc.merge(r)
            return acc
        if enough(acc):
            return acc
        for r in self.pool().imap_unordered(_call, [(fn, s) for s in specs], chunksize):
            self.aborted += r.extra.get("aborted_shards", 0)
            acc.merge(r)
            if enough(acc):
                self._pool.terminate()
                self._pool = None
                self.failfast_stopped = True
                break
        return acc

    def close(self):
        if self._pool is not None:
            self._pool.close()
            self._pool.join()
            self._pool = None

    def note(self, s):
        self.notes.append(s)
        print("note: " + s, flush=True)


def default_sig(v):
    return v["diagnosis"] + "|" + json.dumps(v["case"], sort_keys=True, ensure_ascii=True)


def sig_of(v):
    return v.get("sig") or default_sig(v)


def load_known():
    """KNOWN_FINDINGS.txt, committed, never written at run time.
    finding: property=<id> id=<Fnn> sig=<json string> :: description
    fixed: property=<id> <commit> <what failed>      (suppresses nothing)"""
    path = os.path.join(HERE, "KNOWN_FINDINGS.txt")
    known = collections.defaultdict(dict)
    if not os.path.exists(path):
        return known
    for line in open(path, encoding="utf-8"):
        line = line.rstrip("\n")
        if not line.startswith("finding:"):
            continue
        head, _, desc = line[len("finding:"):].partition(" :: ")
        fields = {}
        rest = head.strip()
        # property=.. id=.. sig=<json string up to end of head>
        p, _, rest = rest.partition(" ")
        fields["property"] = p.split("=", 1)[1]
        i, _, rest = rest.partition(" ")
        fields["id"] = i.split("=", 1)[1]
        assert rest.startswith("sig="), line
        sig = json.loads(rest[4:])
        known[fields["property"]][sig] = (fields["id"], desc.strip())
    return known


def shrink(mod, v, deadline=None):
    """Greedy deterministic reduction with the harness's own oracle: keep a
    simpler candidate only if it still violates with the same diagnosis.
    (Reporting aid only: past `deadline` the case is reported as it stands.)"""
    cand = getattr(mod, "candidates", None)
    if cand is None:
        return v
    cur = v
    for _ in range(200):
        for c in cand(cur["case"]):
            if deadline is not None and time.time() > deadline:
                return cur
            try:
                vs = mod.replay(c)
            except Exception:  # noqa: BLE001
                continue
            same = [x for x in vs if x["diagnosis"] == cur["diagnosis"]]
            if same:
                cur = same[0]
                cur.setdefault("shrunk_from", v["case"])
                break
        else:
            return cur
    return cur


def write_replay(pid, tier, seed, v):
    body = {"property": pid, "tier": tier, "seed": seed, "case": v["case"],
            "diagnosis": v["diagnosis"], "detail": v.get("detail", ""),
            "sig": sig_of(v)}
    if "shrunk_from" in v:
        body["shrunk_from"] = v["shrunk_from"]
    h = hashlib.sha1(sig_of(v).encode("utf-8", "backslashreplace")).hexdigest()[:12]
    d = os.path.join(OUT, "replays")
    os.makedirs(d, exist_ok=True)
    path = os.path.join(d, "%s-%s.json" % (pid, h))
    with open(path, "w", encoding="utf-8") as f:
        json.dump(body, f, indent=1, ensure_ascii=True)
    return path


def confirm_fresh(path, hangs=False):
    """Re-execute the case once in a fresh interpreter: the same case must fail
    every time before it is reported."""
    env = dict(os.environ)
    if hangs:
        env["VERIF_WATCHDOG_S"] = "5"     # the run itself already waited the full time on a hang
    r = subprocess.run([os.path.join(HERE, "vcheck"), "--replay", path],
                       capture_output=True, text=True, env=env, timeout=600)
    return r.returncode == 1, (r.stdout + r.stderr)[-800:]


def run_check(pid, tier):
    seed = int(os.environ.get("VERIF_SEED", "0") or 0)
    mod = importlib.import_module("mc.props." + pid.lower())
    ctx = Ctx(pid, tier, seed)
    _KNOWN_NOW[0] = load_known().get(pid, {})
    t0 = time.time()
    try:
        out = mod.run(ctx)
    finally:
        ctx.close()
    cov = out["coverage"]
    vios = out.get("violations", [])
    vio_total = out.get("violations_total", len(vios))
    known = load_known().get(pid, {})

    if os.environ.get("VERIF_DEBUG"):
        print("debug: run phase %.1fs, %d violating cases" % (time.time() - t0, len(vios)), file=sys.stderr)
    # de-duplicate, shrink, classify
    by_sig = collections.OrderedDict()
    for v in vios:
        by_sig.setdefault(sig_of(v), v)
    new, hits = collections.OrderedDict(), collections.Counter()
    shrunk_budget = 40
    hangs = bool(ctx.aborted) or any("spin" in v["diagnosis"].lower() for v in vios)
    if FAILFAST and vios:
        shrunk_budget = 0
    if hangs:
        from .lib import impl, loaders
        loaders.SPIN_LIMIT = 10 ** 9          # the parent only replays single cases
        impl.ABORT_FLAG.value = 0
        impl.WATCHDOG_S = min(impl.WATCHDOG_S, 3.0)
        shrunk_budget = 0
    deadline = time.time() + float(os.environ.get("VERIF_SHRINK_S", "150"))
    for s, v in by_sig.items():
        if s in known:
            hits[s] += 1
            continue
        if time.time() > deadline:
            shrunk_budget = 0
        if shrunk_budget > 0 and not (isinstance(v["case"], dict) and v["case"].get("generic")):
            shrunk_budget -= 1
            v2 = shrink(mod, v, deadline)
            s2 = sig_of(v2)
            if s2 in known:
                hits[s2] += 1
                continue
            new.setdefault(s2, v2)
        else:
            new.setdefault(s, v)
    if os.environ.get("VERIF_DEBUG"):
        print("debug: shrink done %.1fs" % (time.time() - t0), file=sys.stderr)
    exit_code = 0
    reported, unreproduced = [], []
    max_rep = 4 if hangs else 25
    if FAILFAST:
        max_rep = 3
    confirm_deadline = time.time() + float(os.environ.get("VERIF_CONFIRM_S", "300"))
    skipped = 0
    for s, v in list(new.items()):
        if len(reported) >= max_rep or len(unreproduced) >= 60:
            skipped += 1
            continue
        if reported and time.time() > confirm_deadline:
            skipped += 1          # enough confirmed violations are reported; the rest is only counted
            continue
        if not reported and time.time() > confirm_deadline + 600:
            skipped += 1          # nothing reproduces: do not try for ever
            continue
        path = write_replay(pid, tier, seed, v)
        ok, tail = confirm_fresh(path, hangs)
        if ok:
            reported.append(path)
            print("VIOLATION property=%s replay=%s" % (pid, path))
            print("  diagnosis: %s | %s" % (v["diagnosis"], v.get("detail", "")[:300]))
            exit_code = 1
        else:
            unreproduced.append({"replay": path, "tail": tail[-300:]})
            print("WARNING: case did not reproduce in a fresh interpreter (state leaked "
                  "between executions?): %s" % path)
    if skipped:
        print("note: %d further distinct violating cases not written out" % skipped)
    for s, n in hits.items():
        fid, desc = known[s]
        print("KNOWN-FINDING: property=%s %s %s" % (pid, fid, desc))

    wall = time.time() - t0
    cov.setdefault("exhaustive", True)
    if not cov.get("samples"):
        cov["samples"] = [v["case"] for v in vios[:2]] or ["(no case completed)"]
    if FAILFAST and vios:
        cov["exhaustive"] = False
        cov["note"] = (cov.get("note", "") + " fail-fast run: stopped at the first violating shard.").strip()
    if ctx.aborted:
        cov["exhaustive"] = False
        cov["aborted_shards"] = ctx.aborted
        cov["note"] = (cov.get("note", "") + " %d shards stopped early after repeated confirmed hangs of "
                       "the code under test; the run is not exhaustive." % ctx.aborted).strip()
    ev = {
        "property_id": pid, "tier": tier, "seed": seed, "level": mod.LEVEL,
        "coverage": cov,
        "assumptions": out.get("assumptions", []),
        "wall_s": round(wall, 2),
        "violations": len(reported),
        "violating_cases_before_dedup": vio_total,
        "known_findings": sorted({known[s][0] for s in hits}),
        "unreproduced": unreproduced,
        "vacuous": bool(out.get("vacuous", False)),
        "notes": ctx.notes + out.get("notes", []),
        "repo_head": _git_head(),
    }
    os.makedirs(os.path.join(OUT, "evidence"), exist_ok=True)
    evp = os.path.join(OUT, "evidence", pid + ".json")
    with open(evp, "w", encoding="utf-8") as f:
        json.dump(ev, f, indent=1, ensure_ascii=True, default=str)
    _validate(evp)
    if out.get("vacuous"):
        print("WARNING: run flagged vacuous: " + "; ".join(out.get("notes", [])))
    print("%s %s: evaluations=%s distinct_nontrivial=%s states=%s transitions=%s "
          "violations=%d known=%d wall=%.1fs exhaustive=%s" % (
              pid, tier, cov.get("evaluations"), cov.get("distinct_nontrivial"),
              cov.get("states"), cov.get("transitions"), len(reported), len(hits),
              wall, cov.get("exhaustive")))
    return exit_code


def _git_head():
    try:
        from .lib import impl
        r = subprocess.run(["git", "-C", impl.REPO, "rev-parse", "--short", "HEAD"],
                           capture_output=True, text=True, timeout=20)
        d = subprocess.run(["git", "-C", impl.REPO, "status", "--porcelain", "--", "pvl"],
                           capture_output=True, text=True, timeout=20)
        return r.stdout.strip() + ("+dirty" if d.stdout.strip() else "")
    except Exception:  # noqa: BLE001
        return "unknown"


def _validate(evp):
    """Best effort: validate the evidence file under the tooling venv (jsonschema
    is not installed in /venv)."""
    schema = "/root/.vp/EVIDENCE.schema.json"
    if not os.path.exists(schema):
        return
    code = ("import json,sys,jsonschema;"
            "jsonschema.validate(json.load(open(sys.argv[1])),json.load(open(sys.argv[2])))")
    try:
        r = subprocess.run(["python3-vt", "-c", code, evp, schema],
                           capture_output=True, text=True, timeout=60)
        if r.returncode != 0:
            print("WARNING: evidence file does not validate: " + r.stderr[-400:])
    except Exception:  # noqa: BLE001
        pass


def run_replay(path):
    body = json.load(open(path, encoding="utf-8"))
    pid = body["property"]
    mod = importlib.import_module("mc.props." + pid.lower())
    if body["case"].get("generic") == "spin":
        from .lib import loaders
        r = loaders.outcome(body["case"]["dialect"], body["case"]["text"])
        vs = [{"case": body["case"], "diagnosis": "spin:" + body["case"]["dialect"],
               "detail": "load does not terminate"}] if r[0] == "spin" else []
    else:
        vs = mod.replay(body["case"])
    print("replay %s property=%s" % (path, pid))
    print("  recorded : %s" % body.get("diagnosis"))
    if vs:
        for v in vs[:5]:
            print("  observed : %s | %s" % (v["diagnosis"], v.get("detail", "")[:500]))
        print("  verdict  : still violates")
        return 1
    print("  verdict  : holds")
    return 0
