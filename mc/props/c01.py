"""C01 - dump, then strict load in the same dialect, returns the original module.
(C02 reuses this harness with the default loader as the reader.)

Engine E5: modules from a value alphabet (one value per shortcut visible in
the encoder: keywords in three letter cases, number-/date-like strings, empty
string, every reserved character, quotes, white-space forms, Latin-1 / control
/ non-Latin-1 characters, strings around the wrap thresholds; ints, floats,
dates, naive / UTC / offset times, quantities) x shapes (top level, sequences,
sets, nested, in group / object, duplicate keys, container trees, key forms,
a wrap-focused grid) x encoder configurations explored by deviation from the
defaults (0, 1, 2 options changed).  Oracle R4: dumps raises
ValueError/TypeError (refusal) or returns text that the strict parser of the
same dialect loads to a module equal to the original up to exactly the
normalisations C01 lists.
"""
from ..runner import Acc
from ..lib import impl, modgen, vjson, gen

LEVEL = "exploration"
READER = None        # None: the strict parser of the encoder's dialect (C01); "OMNI": pvl.loads (C02)
PID = "C01"


def expected_module(m, encname):
    """the module the reader must return, before value normalisation: PDS3's
    documented GROUP -> OBJECT conversion applied"""
    if encname != "PDS3":
        return m
    G, O, OMD = impl.PVLGroup, impl.PVLObject, impl.OrderedMultiDict

    def invalid(g):
        items = list(g)
        if any(isinstance(v, OMD) for _, v in items):
            return True
        keys = [str(k).upper() for k, _ in items]      # as they are written
        if len(keys) != len(set(keys)):
            return True
        for k, v in items:
            if str(k).startswith("^") and (
                    (isinstance(v, int)) or
                    (isinstance(v, impl.Quantity) and isinstance(v.value, int))):
                return True
        return False

    def conv(c, top):
        items = []
        for k, v in c:
            if isinstance(v, OMD):
                sub = conv(v, False)
                if isinstance(v, G) and invalid(v):
                    sub = O(list(sub))
                items.append((k, sub))
            else:
                items.append((k, v))
        if top:
            grps = [v for _, v in c if isinstance(v, G)]
            objs = [v for _, v in c if isinstance(v, OMD) and not isinstance(v, G)]
            if grps and not objs and not any(invalid(g) for g in grps):
                for i, (k, v) in enumerate(items):
                    if isinstance(v, G):
                        items[i] = (k, O(list(v)))
                        break
        return type(c)(items)
    return conv(m, True)


def check_case(case):
    items, encname, cfg = case["items"], case["enc"], case["cfg"]
    reader = case.get("reader") or encname
    out = []
    try:
        m = gen.module(items)
    except Exception as e:  # noqa: BLE001
        return out, "unbuildable:" + type(e).__name__
    for prior_enc, prior_cfg in case.get("prior", []):
        # what the process had done with this module before (only present in replays): state
        # shared between encoder classes depends on who saw a value first
        try:
            impl.make_encoder(prior_enc, **{k: v for k, v in prior_cfg.items() if v is not None}).encode(
                gen.module(items))
        except Exception:  # noqa: BLE001
            pass
    try:
        enc = impl.make_encoder(encname, **{k: v for k, v in cfg.items() if v is not None})
        text = enc.encode(m)
    except (ValueError, TypeError):
        return out, "refused"
    except Exception as e:  # noqa: BLE001
        out.append({"case": case, "diagnosis": "dump-raises:%s:%s" % (encname, type(e).__name__),
                    "detail": str(e)[:200]})
        return out, "violation"
    if not isinstance(text, str):
        out.append({"case": case, "diagnosis": "dump-returns-non-str:" + encname, "detail": repr(type(text))})
        return out, "violation"
    original = gen.module(items)        # the dump may have converted groups in m (C13's business)
    want = expected_module(original, encname)
    f = impl.LexerFactory(factor=20)
    if reader == "OMNI":
        parser = impl.make_parser("OMNI", lexer_fn=f)
    else:
        parser = impl.strict_parser_for_encoder(encname, lexer_fn=f)
    r = impl.load_outcome(parser, text)
    if r[0] == "spin":
        impl.WATCHDOG_S = min(impl.WATCHDOG_S, 3.0)     # it does hang: later cases of this shard wait less
    if r[0] != "ok":
        out.append({"case": case, "diagnosis": "output-does-not-load:%s->%s" % (encname, reader),
                    "detail": "text %r: %s" % (text[:300], (r[1] + ": " + str(r[2])[:120]) if len(r) > 2 else r[0])})
        return out, "violation"
    got = r[1]
    rules = modgen.rules_for(reader)
    rules_want = dict(rules, upper_keys=encname in ("ODL", "PDS3"))
    nw = modgen.norm_module(want, rules_want)
    ng = modgen.norm_module(got, rules)
    if nw != ng:
        out.append({"case": case, "diagnosis": "round-trip-differs:%s->%s" % (encname, reader),
                    "detail": "%s | text %r" % (first_diff(nw, ng), text[:240])})
        return out, "violation"
    if reader == "OMNI":
        # the property names pvl.loads with no other arguments: the convenience function itself,
        # not only the parser it builds (the counting lexer above is the net for non-termination)
        import pvl
        try:
            got2 = pvl.loads(text)
        except Exception as e:  # noqa: BLE001
            out.append({"case": case, "diagnosis": "pvl.loads-rejects-what-OmniParser-accepts:" + encname,
                        "detail": "text %r: %s: %s" % (text[:240], type(e).__name__, str(e)[:120])})
            return out, "violation"
        ng2 = modgen.norm_module(got2, rules)
        if ng2 != nw:
            out.append({"case": case, "diagnosis": "round-trip-differs:%s->pvl.loads" % encname,
                        "detail": "%s | text %r" % (first_diff(nw, ng2), text[:240])})
            return out, "violation"
    if reader == "OMNI" and list(getattr(got, "errors", [])):
        out.append({"case": case, "diagnosis": "empty-value-repair-fired-on-encoder-output:" + encname,
                    "detail": "errors %r, text %r" % (got.errors, text[:200])})
        return out, "violation"
    return out, "equal"


def first_diff(a, b, path="module"):
    if a == b:
        return ""
    if (isinstance(a, tuple) and isinstance(b, tuple) and len(a) == 2 and len(b) == 2
            and isinstance(a[1], tuple) and isinstance(b[1], tuple) and isinstance(a[0], str)
            and a[0].startswith("PVL")):
        if a[0] != b[0]:
            return "%s: class %s -> %s" % (path, a[0], b[0])
        ka = [k for k, _ in a[1]]
        kb = [k for k, _ in b[1]]
        if ka != kb:
            return "%s: items %r -> %r" % (path, ka, kb)
        for (k, x), (_, y) in zip(a[1], b[1]):
            d = first_diff(x, y, path + "." + k[1])
            if d:
                return d
        return ""
    return "%s: %r -> %r" % (path, a, b)


def value_tag(items):
    """coarse description of what the module exercises (for signatures)"""
    def leaves(its):
        for k, v in its:
            if isinstance(v, dict) and v.get("$") in ("group", "object"):
                yield from leaves(v["items"])
            else:
                yield v
    ls = list(leaves(items))
    if len(ls) > 3:
        ls = ls[:3]
    return vjson_short(ls)


def vjson_short(o):
    import json
    return json.dumps(o, ensure_ascii=True)[:70]


def shard(spec):
    """Runs in a fresh process (state shared between encoder classes must show
    the same way on every run); combos come in the order given."""
    mods, combos, reader = spec
    acc = Acc()
    for name, items in mods:
        for ci, (encname, cfg) in enumerate(combos):
            case = {"items": items, "enc": encname, "cfg": cfg, "shape": name}
            if reader:
                case["reader"] = reader
            vs, status = check_case(case)
            if vs and ci and len(combos) <= 4:
                for v in vs:
                    v["case"] = dict(v["case"], prior=[[e, c] for e, c in combos[:ci]])
            acc.n += 1
            acc.outcomes[status if not vs else "violation"] += 1
            acc.sets["combo"].add((name, encname))
            if vs:
                for v in vs[:1]:
                    acc.violation(v["case"], v["diagnosis"], v["detail"],
                                  sig="%s|%s|%s" % (v["diagnosis"], name, value_tag(items)))
            elif status == "equal":
                acc.nontrivial += 1
    if mods:
        acc.sample({"shape": mods[0][0], "items": mods[0][1]}, cap=1)
    return acc


def plan(ctx, reader):
    mods = list(modgen.modules(ctx.tier, nonfinite=(reader == "OMNI")))
    core = [m for m in mods if m[0] in ("top", "seq2", "wrap", "tree", "key")]
    specs = []
    default = [(e, {}) for e in impl.ENCODERS]
    for i in range(0, len(mods), 40):
        specs.append((mods[i:i + 40], default, reader))
        # and in the opposite encoder order (a leak from one encoder class to another
        # depends on which one sees a value first)
        specs.append((mods[i:i + 40], list(reversed(default)), reader))
    # every single-option deviation on the full module set, every two-option deviation on a core
    dev1 = [(e, c) for e in impl.ENCODERS for c in modgen.configs(e, 1) if c]
    dev2 = [(e, c) for e in impl.ENCODERS for c in modgen.configs(e, 2) if len(c) == 2]
    if ctx.quick:
        sel = mods[::5]
        for i in range(0, len(sel), 20):
            specs.append((sel[i:i + 20], dev1, reader))
        sel2 = core[::25]
        for i in range(0, len(sel2), 4):
            specs.append((sel2[i:i + 4], dev2, reader))
    else:
        for i in range(0, len(mods), 10):
            specs.append((mods[i:i + 10], dev1, reader))
        sel2 = core[::4]
        for i in range(0, len(sel2), 4):
            specs.append((sel2[i:i + 4], dev2, reader))
    return mods, specs, len(dev1), len(dev2)


def run(ctx, reader=READER, pid=PID):
    mods, specs, n1, n2 = plan(ctx, reader)
    import multiprocessing
    import random
    random.Random(ctx.seed).shuffle(specs)
    acc = Acc()
    with multiprocessing.get_context("fork").Pool(16, maxtasksperchild=1) as pool:
        for r in pool.imap_unordered(shard, specs):
            acc.merge(r)
            if __import__('mc.runner').runner.enough(acc):
                break
    cov = {
        "evaluations": acc.n, "distinct_nontrivial": acc.nontrivial,
        "rule": "%d modules (value alphabet of %d simple values x shapes top/sequence/set/nested/in-group/in-object, all "
                "ordered pairs of a 12-value core in sequences and sets, %d key forms, wrap grid, all container trees with "
                "<= %d nodes, mixed documents) x 4 encoders at default options (in both encoder orders, each shard in a fresh process); x %d single-option deviations (%s); x %d "
                "two-option deviations on a core; reader = %s; non-trivial = the encoder did not refuse, the text loaded "
                "and the module compared equal under R4 (each (module, encoder, configuration) is one distinct case)"
                % (len(mods), len(modgen.simple_values()), len(modgen.KEYS), 3 if ctx.quick else 4, n1,
                   "every 5th module" if ctx.quick else "all modules", n2,
                   "the strict parser of the encoder's dialect" if not reader else "pvl.loads() defaults"),
        "outcome_histogram": dict(acc.outcomes),
        "shape_encoder_pairs": len(acc.sets["combo"]),
        "samples": acc.samples[:6], "exhaustive": True,
    }
    return {"coverage": cov, "violations": acc.violations, "violations_total": acc.vio_total,
            "assumptions": ["R4 (mc/lib/modgen.py) implements exactly the allowed differences: upper-cased parameter names "
                            "(ODL/PDS3), white-space folding of strings on both sides (ODL-family readers), naive times "
                            "read as UTC where the dialect has a default zone, PDS3 GROUP->OBJECT per the documented rule, "
                            "set vs frozenset; aware times are compared as instants",
                            "values outside the alphabet and modules with more than 4 containers are not covered"]}


def replay(case):
    return check_case(case)[0]


def candidates(case):
    items = case["items"]
    if case.get("prior"):
        yield {k: v for k, v in case.items() if k != "prior"}
    if case.get("cfg"):
        for k in sorted(case["cfg"]):
            c = dict(case)
            c["cfg"] = {kk: v for kk, v in case["cfg"].items() if kk != k}
            yield c

    def drop(its):
        for i in range(len(its)):
            yield its[:i] + its[i + 1:]
        for i, (k, v) in enumerate(its):
            if isinstance(v, dict) and v.get("$") in ("group", "object"):
                for sub in drop(v["items"]):
                    yield its[:i] + [[k, {"$": v["$"], "items": sub}]] + its[i + 1:]
            elif isinstance(v, list) and len(v) > 1:
                for j in range(len(v)):
                    yield its[:i] + [[k, v[:j] + v[j + 1:]]] + its[i + 1:]
    for its in drop(items):
        if its:
            c = dict(case)
            c["items"] = its
            yield c
