"""C03 - well-formed text decodes to the values the dialect grammar assigns.

Engine E2 (WELL side).  (1) every spelling the dialect permits of every
abstract simple value (R3, mc/lib/spell.py) x every syntactic context
(end of text, delimiter, following statement, END, block end, comments,
no-space forms, first/middle/last/only element of sequence and set, nested
sequences, before units, inside group/object, CR-LF) x the five parser
configurations - the full product.  (2) document shapes with blocks x every
combination (or every <= d deviations from canonical) of keyword spelling
(GROUP/Group/group/BEGIN_GROUP/...), end keyword case, end-name presence,
statement delimiters, END spelling, parameter-name forms.  The expected tree is
built by the generator from the abstract document - independent of the
library's encoder and decoder.  A returned tree that differs, or a rejection,
is a violation.
"""
import itertools

from ..runner import Acc
from ..lib import impl, loaders, spell, tokens as T

LEVEL = "model_checking"


# ------------------------------------------------------------------ contexts

def contexts(dialect, text, exp, kind):
    """yields (context name, document text, expected tree items)"""
    Q = lambda v, u: ("Q", v, u)        # noqa: E731
    S = lambda *xs: ("SEQ", list(xs))   # noqa: E731
    SET = lambda *xs: ("SET", list(xs))  # noqa: E731
    G = lambda items: ("G", items)      # noqa: E731
    O = lambda items: ("O", items)      # noqa: E731
    multiline = "\n" in text or "\r" in text
    ends_slash = text.endswith(("/", "*"))
    yield "eof", "k = %s" % text, [("k", exp)]
    yield "newline", "k = %s\n" % text, [("k", exp)]
    yield "semi", "k = %s;" % text, [("k", exp)]
    yield "space-semi", "k = %s ;\nj = 1" % text, [("k", exp), ("j", 1)]
    yield "next-stmt", "k = %s\nj = 1\n" % text, [("k", exp), ("j", 1)]
    yield "next-stmt-same-line", "k = %s j = 1" % text, [("k", exp), ("j", 1)]
    yield "crlf", "k = %s\r\nj = 1\r\n" % text, [("k", exp), ("j", 1)]
    yield "end", "k = %s\nEND\n" % text, [("k", exp)]
    yield "end-same-line", "k = %s END" % text, [("k", exp)]
    yield "in-group", "GROUP = g\n  k = %s\nEND_GROUP = g\nEND\n" % text, [("g", G([("k", exp)]))]
    yield "in-group-same-line", "GROUP = g k = %s END_GROUP" % text, [("g", G([("k", exp)]))]
    yield "in-object-in-object", ("OBJECT = o\n OBJECT = p\n  k = %s\n END_OBJECT = p\n j = 2\nEND_OBJECT = o\n" % text,
                                  )[0], [("o", O([("p", O([("k", exp)])), ("j", 2)]))]
    if not ends_slash:
        yield "comment-after", "k = %s /* c */\nj = 1" % text, [("k", exp), ("j", 1)]
        if kind != "ustr" or "/" not in text and "*" not in text:
            yield "comment-tight", "k = %s/* c */ j = 1" % text, [("k", exp), ("j", 1)]
    yield "comment-before", "/* c */k = %s\n" % text, [("k", exp)]
    if not text.startswith(("/", "*")):
        yield "comment-before-value", "k = /* = */%s\n" % text, [("k", exp)]
    yield "no-space", "k=%s\nj=1" % text, [("k", exp), ("j", 1)]
    yield "tabs", "k\t=\t%s\t\n" % text, [("k", exp)]
    yield "dup-name", "k = %s\nk = %s\n" % (text, text), [("k", exp), ("k", exp)]
    # sequences
    yield "seq-only", "k = (%s)" % text, [("k", S(exp))]
    yield "seq-only-spaced", "k = ( %s )\n" % text, [("k", S(exp))]
    yield "seq-first", "k = (%s, 1)" % text, [("k", S(exp, 1))]
    yield "seq-last", "k = (1, %s)" % text, [("k", S(1, exp))]
    yield "seq-middle-tight", "k = (1,%s,2)" % text, [("k", S(1, exp, 2))]
    yield "seq-twice", "k = (%s, %s)" % (text, text), [("k", S(exp, exp))]
    yield "seq-newlines", "k = (%s,\n     %s\n    )\n" % (text, text), [("k", S(exp, exp))]
    yield "seq-2d", "k = ((%s), (1, 2))" % text, [("k", S(S(exp), S(1, 2)))]
    if dialect not in ("ODL", "PDS3"):
        yield "seq-mixed-depth", "k = (1, (%s, 2), ((3)))" % text, [("k", S(1, S(exp, 2), S(S(3))))]
    # sets
    yield "set-only", "k = {%s}" % text, [("k", SET(exp))]
    yield "set-pair", "k = {zz, %s}\n" % text, [("k", SET("zz", exp))]
    yield "set-tight", "k = {%s,zz}" % text, [("k", SET(exp, "zz"))]
    if dialect not in ("ODL", "PDS3"):
        yield "set-in-seq", "k = ({%s}, 1)" % text, [("k", S(SET(exp), 1))]
        yield "set-in-set", "k = {{%s}, zz}" % text, [("k", SET(SET(exp), "zz"))]
        if kind == "int" and text in ("7", "16#FF#"):
            yield "seq-in-set", "k = {(%s), zz}" % text, [("k", SET(S(exp), "zz"))]
            yield "seq-with-units-in-set", "k = {(%s, 1) <m>}" % text, [("k", SET(Q(S(exp, 1), "m")))]
        if kind in ("int", "real"):
            yield "quantity-in-set", "k = {%s <m>, zz}" % text, [("k", SET(Q(exp, "m"), "zz"))]
            yield "set-with-units", "k = {%s, zz} <m>" % text, [("k", Q(SET(exp, "zz"), "m"))]
    if dialect in ("ODL", "PDS3") and kind in ("int", "real"):
        # ODL sets hold scalar values, and a number with its units is one
        yield "quantity-in-set", "k = {%s <m>, zz}" % text, [("k", SET(Q(exp, "m"), "zz"))]
        yield "quantity-in-set-in-seq", "k = (1, {%s <K>})" % text, [("k", S(1, SET(Q(exp, "K"))))]
    # units
    if kind in ("int", "real"):
        yield "units", "k = %s <m>" % text, [("k", Q(exp, "m"))]
        yield "units-tight", "k = %s<m>\nj = 1" % text, [("k", Q(exp, "m")), ("j", 1)]
        yield "units-padded", "k = %s < km/s >;" % text, [("k", Q(exp, "km/s"))]
        yield "units-in-seq", "k = (%s <m>, 1 <s>)" % text, [("k", S(Q(exp, "m"), Q(1, "s")))]
        yield "units-newline", "k = %s\n    <m>\n" % text, [("k", Q(exp, "m"))]
        # a comment is white space: also between a value and its units expression
        yield "units-after-comment", "k = %s /* c */ <m>\nj = 1" % text, [("k", Q(exp, "m")), ("j", 1)]
        yield "units-in-seq-after-comment", "k = (%s /* x */ <m>, 2)" % text, [("k", S(Q(exp, "m"), 2))]
        if dialect in ("ISIS", "OMNI"):
            yield "units-after-hash-comment", "k = %s # c\n  <m>\n" % text, [("k", Q(exp, "m"))]
    elif dialect not in ("ODL", "PDS3"):
        yield "units-on-string", "k = %s <m>" % text, [("k", Q(exp, "m"))]
    if dialect not in ("ODL", "PDS3"):
        yield "units-on-seq", "k = (%s, 1) <m>" % text, [("k", Q(S(exp, 1), "m"))]
        yield "units-on-seq-after-comment", "k = (%s, 1) /* c */ <m>" % text, [("k", Q(S(exp, 1), "m"))]
    if dialect in ("ISIS", "OMNI") and kind in ("int", "real", "ustr") and len(text) >= 2 and "-" not in text[:-1]:
        # the dialect's line continuation: a dash at the end of a line joins the next line (leading
        # white space dropped), whatever kind of line break the text uses
        h = len(text) // 2
        if text[h - 1] not in "+-#" and text[h] not in "#":
            for brk, name in (("\n", "lf"), ("\r\n", "crlf"), ("\r", "cr"), ("\f", "ff")):
                yield ("dash-continuation-" + name, "k = %s-%s   %s%sj = 1%s" % (text[:h], brk, text[h:], brk, brk),
                       [("k", exp), ("j", 1)])
    if dialect in ("ISIS", "OMNI") and not multiline:
        yield "hash-comment", "k = %s # c\nj = 1\n" % text, [("k", exp), ("j", 1)]
        yield "hash-comment-line", "# c = 2\nk = %s\n# d\nj = 1\n" % text, [("k", exp), ("j", 1)]


def judge(acc, d, ctxname, text, items, payload):
    r = loaders.outcome(d, text)
    acc.n += 1
    acc.traces += 1
    case = {"dialect": d, "text": text, "context": ctxname}
    case.update(payload)
    if r[0] == "ok":
        got = T.loose(r[1])
        want = T.tree_canon(items)
        if got == want:
            acc.nontrivial += 1
            acc.outcomes["equal"] += 1
            return
        acc.outcomes["violation"] += 1
        acc.violation(case, "wrong-tree:" + d,
                      "text %r: grammar denotes %r, loader returned %r" % (text, want, got),
                      sig="%s|wrong|%s|%s" % (d, payload.get("spelling", ""), ctxname))
    elif r[0] == "doc":
        acc.outcomes["violation"] += 1
        acc.violation(case, "well-formed-rejected:" + d,
                      "text %r: %s: %s" % (text, r[1], str(r[2])[:160]),
                      sig="%s|rejected|%s|%s" % (d, payload.get("spelling", ""), ctxname))
    else:
        acc.outcomes["violation"] += 1
        acc.violation(case, "well-formed-crashes:" + d,
                      "text %r: %s" % (text, loaders.brief(r)),
                      sig="%s|crash|%s|%s" % (d, payload.get("spelling", ""), ctxname))


def shard_values(spec):
    d, lo, hi = spec
    acc = Acc()
    sp = spell.spellings(d)[lo:hi]
    for text, exp, kind in sp:
        for ctxname, doc, items in contexts(d, text, exp, kind):
            if d in ("ISIS", "OMNI") and _has_dash_continuation(doc) and not ctxname.startswith("dash-continuation"):
                continue          # an accidental '-' + line end; the deliberate ones have their own contexts
            acc.sets["ctx"].add((ctxname, kind))
            judge(acc, d, ctxname, doc, items, {"spelling": text})
    acc.sample({"dialect": d, "spellings": [s[0] for s in sp[:4]]}, cap=1)
    return acc


def _has_dash_continuation(doc):
    import re
    return re.search(r"-[\n\r\f]", doc) is not None


# ------------------------------------------------------------------ documents

BEGIN = {"G": ["GROUP", "Group", "group", "BEGIN_GROUP", "Begin_Group", "begin_group", "gRoUp"],
         "O": ["OBJECT", "Object", "object", "BEGIN_OBJECT", "Begin_Object", "begin_object"]}
ENDKW = {"G": ["END_GROUP", "End_Group", "end_group"], "O": ["END_OBJECT", "End_Object", "end_object"]}
ENDNAME = ["", " = {n}", "={n}", " =\n {n}"]
DELIM = ["", ";", " ;"]
ENDS = ["", "END", "End", "end", "END;", "END\n", "END /* trailing */ junk = ("]
NAMES = ["k", "Key_1", "NS:KEY", "^PTR", "k.x", "a-b"]

SHAPES = [
    [["A", 1]],
    [["A", 1], ["A", '"s"']],
    [["G", "g", [["A", 1]]]],
    [["A", 1], ["O", "o", [["A", 1], ["A", 2]]], ["A", 3]],
    [["O", "o", [["G", "g", [["A", 1]]]]]],
    [["G", "g", [["A", 1]]], ["G", "g", [["A", 2]]]],
    [["O", "o", [["O", "o", [["A", 1]]], ["A", 2]]]],
    # several nested blocks of one name inside a block (a TABLE with its COLUMNs)
    [["O", "t", [["O", "c", [["A", 1]]], ["O", "c", [["A", 2]]], ["A", 3], ["G", "c", [["A", 4]]]]]],
    [["G", "g", [["G", "g", [["A", 1]]], ["G", "g", [["A", 2]]]]], ["A", 5]],
]


def names_for(dialect):
    # ODL/PDS3 parameter names are identifiers, optionally namespaced or pointers
    return NAMES[:4] if dialect in ("ODL", "PDS3") else NAMES


def slots(shape, dialect):
    """The list of spelling positions of a shape, each with its alternatives
    (first = canonical)."""
    out = []

    def walk(stmts):
        for s in stmts:
            if s[0] == "A":
                out.append(("name", names_for(dialect)))
                out.append(("delim", DELIM))
            else:
                b = [k for k in BEGIN[s[0]] if not (dialect == "ISIS" and k.upper().startswith("BEGIN"))]
                out.append(("begin", b))
                out.append(("delim", DELIM))
                walk(s[2])
                out.append(("endkw", ENDKW[s[0]]))
                out.append(("endname", ENDNAME))
                out.append(("delim", DELIM))
    walk(shape)
    out.append(("end", ENDS))
    return out


def render_shape(shape, choice):
    """choice: list of alternative indices, one per slot (same order as slots())."""
    it = iter(choice)
    lines = []

    def walk(stmts, level):
        items = []
        for s in stmts:
            ind = "  " * level
            if s[0] == "A":
                name = NAMES[next(it)]
                dl = DELIM[next(it)]
                v = s[1]
                lines.append("%s%s = %s%s" % (ind, name, v, dl))
                items.append((name, "s" if v == '"s"' else v))
            else:
                bi = next(it)
                dl = DELIM[next(it)]
                lines.append("%s%s = %s%s" % (ind, "@B%d@%s" % (bi, s[0]), s[1], dl))
                body = walk(s[2], level + 1)
                ek = ENDKW[s[0]][next(it)]
                en = ENDNAME[next(it)].replace("{n}", s[1])
                dl2 = DELIM[next(it)]
                lines.append("%s%s%s%s" % (ind, ek, en, dl2))
                items.append((s[1], (s[0], body)))
        return items
    items = walk(shape, 0)
    end = ENDS[next(it)]
    if end:
        lines.append(end)
    return "\n".join(lines) + "\n", items


def shard_docs(spec):
    d, si, dev, part, nparts = spec
    shape = SHAPES[si]
    sl = slots(shape, d)
    acc = Acc()
    sizes = [len(alts) for _, alts in sl]
    if dev is None:
        choices = itertools.product(*[range(n) for n in sizes])
    else:
        choices = deviations(sizes, dev)
    for j, ch in enumerate(choices):
        if j % nparts != part:
            continue
        text, items = render_shape(shape, ch)
        # begin keyword placeholders -> this dialect's alternative list
        for kind in ("G", "O"):
            alts = [k for k in BEGIN[kind] if not (d == "ISIS" and k.upper().startswith("BEGIN"))]
            for bi, k in enumerate(alts):
                text = text.replace("@B%d@%s" % (bi, kind), k)
        acc.sets["ctx"].add(("doc", si))
        judge(acc, d, "shape%d" % si, text, items, {"choice": list(ch)})
    acc.sample({"dialect": d, "shape": shape}, cap=1)
    return acc


def deviations(sizes, d):
    n = len(sizes)
    base = [0] * n
    yield tuple(base)
    for k in range(1, d + 1):
        for pos in itertools.combinations(range(n), k):
            for alt in itertools.product(*[range(1, sizes[p]) for p in pos]):
                ch = list(base)
                for p, a in zip(pos, alt):
                    ch[p] = a
                yield tuple(ch)


def run(ctx):
    acc = Acc()
    specs = []
    for d in impl.DIALECTS:
        n = len(spell.spellings(d))
        step = 8
        for lo in range(0, n, step):
            specs.append((d, lo, lo + step))
    ctx.pmap(shard_values, specs, into=acc)
    dspecs = []
    for d in impl.DIALECTS:
        for si, shape in enumerate(SHAPES):
            nslots = len(slots(shape, d))
            if nslots <= 9 and not ctx.quick or nslots <= 8:
                dev = None
            else:
                dev = 1 if ctx.quick else 3
            if ctx.quick and dev is None and nslots > 6:
                dev = 2
            for part in range(8):
                dspecs.append((d, si, dev, part, 8))
    ctx.pmap(shard_docs, dspecs, into=acc)
    ctxs = acc.sets["ctx"]
    cov = {
        "evaluations": acc.n, "distinct_nontrivial": acc.nontrivial,
        "states": len(ctxs), "transitions": acc.traces,
        "traces_validated_against_impl": acc.traces,
        "rule": "(1) every permitted spelling of every abstract simple value (%s spellings per dialect: decimal and "
                "based integers in every radix/sign position, reals with optional sign/fraction/exponent, strings "
                "in either quote and unquoted) x every context (%d context kinds) x 5 parser configurations, full "
                "product; (2) %d document shapes x keyword/end-name/delimiter/END/name spellings: full product for "
                "small shapes, all <= %d deviations from canonical otherwise; states = distinct (context, value "
                "kind) pairs, transitions = texts replayed on the implementation; non-trivial = loader returned "
                "exactly the generator's tree"
                % ("/".join(str(len(spell.spellings(d))) for d in impl.DIALECTS),
                   len({c for c, _ in ctxs}), len(SHAPES), 1 if ctx.quick else 3),
        "outcome_histogram": dict(acc.outcomes),
        "samples": acc.samples[:8], "exhaustive": True,
    }
    return {"coverage": cov, "violations": acc.violations, "violations_total": acc.vio_total,
            "assumptions": ["spelling tables R3 (mc/lib/spell.py) are trusted; spellings a dialect does not permit are "
                            "not demanded there; reals without a decimal point but with an exponent, keywords "
                            "NULL/TRUE/FALSE and dates/times (C14) are outside this property's tables",
                            "tokens ending in '-' directly before a line end are excluded for ISIS/default "
                            "(that is the dialect's continuation syntax)",
                            "quoted text with white space around a line break is expected folded for the ODL-family "
                            "decoders (ODL, PDS3, ISIS, default) and verbatim for PVL"]}


def replay(case):
    acc = Acc()
    d = case["dialect"]
    if "choice" in case:
        si = int(case["context"][5:])
        text, items = render_shape(SHAPES[si], case["choice"])
        for kind in ("G", "O"):
            alts = [k for k in BEGIN[kind] if not (d == "ISIS" and k.upper().startswith("BEGIN"))]
            for bi, k in enumerate(alts):
                text = text.replace("@B%d@%s" % (bi, kind), k)
        judge(acc, d, case["context"], text, items, {"choice": case["choice"]})
        return acc.violations
    for text, exp, kind in spell.spellings(d):
        if text == case["spelling"]:
            for ctxname, doc, items in contexts(d, text, exp, kind):
                if ctxname == case["context"]:
                    judge(acc, d, ctxname, doc, items, {"spelling": text})
    return acc.violations
