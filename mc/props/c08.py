"""C08 - missing values are tolerated by the default loader and located exactly.

Engine E2 in Omni mode: every reference document of a family (flat documents
of 1-3 assignments over 8 value kinds, documents with a group/object and a
nested object) x every non-empty subset of its assignments emptied x every
layout (one per line, blank lines, two statements per line, comment lines,
CR-LF, '=' on its own line, no END, ';' after the gap).  The generator knows
on which line it wrote each '='.  Oracle: the default loader returns every
statement in order, an empty-str placeholder whose lineno is the 1-based line
of its '=' for each emptied parameter (all other values as written),
module.errors == sorted(those lines); the strict PVL, ODL and PDS3 parsers
raise LexerError/ParseError on the same text.
"""
import datetime as dt
import itertools

from ..runner import Acc
from ..lib import impl, loaders, vjson

LEVEL = "model_checking"

VALS = [("x", "x"), ("1", 1), ('"q r"', "q r"), ("(1, 2)", [1, 2]),
        ("1.5 <m>", ("Q", 1.5, "m")), ("2001-01-01", dt.date(2001, 1, 1)),
        ("NULL", None), ("{a, b}", ("SET", ["a", "b"])), ("-7", -7), ("'s'", "s")]
FEATURES = {
    "eq": ["same", "ownline", "valuenext", "commented"],   # where '=' / the value sit relative to the name
    "gap": ["bare", "semi", "hash", "comment", "hasheq"],   # what follows the '=' of an emptied parameter
    "delim": [False, True],                     # ';' after statements that have a value
    "nl": ["\n", "\r\n"],
    "between": ["none", "blank", "comment", "hashline", "comment2", "hashline2", "comment3"],    # lines between statements
    "names": ["plain", "pvlish"],               # parameter names that are not ODL identifiers: ^a, ns:b, c-1, d.x
    "end": [True, False],                       # END statement present
    "pack": [False, True],                      # two statements per physical line
    "indent": ["spaces", "tabs"],
    "trail": ["none", "comment"],               # a comment after every statement that has a value
    "eqfrom": [0, 1],                           # the 'eq' variation applies from this statement on
}
CANON = {k: v[0] for k, v in FEATURES.items()}


PAIRS = [("gap", "delim"), ("eq", "end"), ("eq", "gap"), ("end", "gap"), ("between", "gap"), ("gap", "pack"),
         ("end", "nl"), ("eq", "nl"), ("eq", "between"), ("between", "delim"), ("eq", "delim")]
PAIRS += [("eq", "trail"), ("gap", "trail"), ("delim", "trail"), ("eq", "eqfrom")]
PAIRS += [("gap", "names"), ("eq", "names"), ("between", "names"), ("names", "pack")]
PAIRS = [tuple(sorted(p)) for p in PAIRS]
TRIPLES = [("eq", "eqfrom", "trail"), ("delim", "eq", "eqfrom")]


def layouts(dev):
    """all layouts that deviate from the canonical one in <= dev features
    (dev = 1.5: all single deviations plus the feature pairs in PAIRS)"""
    names = sorted(FEATURES)
    out = [dict(CANON)]
    for k in range(1, int(dev) + 1 + (1 if dev == 1.5 else 0)):
        for pos in itertools.combinations(names, k):
            if k == 2 and dev == 1.5 and pos not in PAIRS:
                continue
            for alt in itertools.product(*[FEATURES[p][1:] for p in pos]):
                lay = dict(CANON)
                lay.update(dict(zip(pos, alt)))
                out.append(lay)
    # a few named three-feature combinations (a comment before '=' only from the second
    # statement on, after a first statement that ends with a comment / a delimiter)
    for pos in TRIPLES:
        for alt in itertools.product(*[FEATURES[p][1:] for p in pos]):
            lay = dict(CANON)
            lay.update(dict(zip(pos, alt)))
            if lay not in out:
                out.append(lay)
    return out


def lay_name(lay):
    return ",".join("%s=%s" % (k, lay[k]) for k in sorted(lay) if lay[k] != CANON[k]) or "canonical"


def docs(quick):
    names = ["a", "b", "c", "d"]
    vr = range(len(VALS))
    for n in (1, 2, 3):
        dom = vr if n < 3 else (0, 1, 3, 4)
        if quick:
            dom = {1: vr, 2: (0, 1, 2, 3, 4), 3: (0, 1, 2)}[n]
        for vs in itertools.product(dom, repeat=n):
            yield [["A", names[i], v] for i, v in enumerate(vs)]
    core = (0, 1, 2) if not quick else (0, 1)
    for v1, v2, v3 in itertools.product(core, repeat=3):
        for kw in ("GROUP", "OBJECT"):
            for endname in (True, False):
                if quick and (v1 != v3) and endname:
                    continue
                yield [["A", "a", v1], ["B", kw, "g", [["A", "b", v2], ["A", "c", v3]], endname],
                       ["A", "d", v1]]
                yield [["B", kw, "g", [["A", "b", v2], ["B", "OBJECT", "o", [["A", "c", v3]], endname],
                                       ["A", "d", v1]], endname]]
    # four assignments, adjacent gaps, duplicate names
    for vs in itertools.product((0, 1), repeat=4):
        yield [["A", n, v] for n, v in zip(["a", "a", "b", "a"], vs)]


def assigns(doc, path=()):
    for i, s in enumerate(doc):
        if s[0] == "A":
            yield path + (i,)
        else:
            yield from assigns(s[3], path + (i,))


def render(doc, empty, lay):
    """-> (text, expected tree, expected sorted error lines).  The generator
    records the character offset of the '=' of every emptied parameter; its
    1-based line is counted on the finished text."""
    stmts_out = []     # list of statement strings (may contain newlines), with marks
    count = [0]
    marks = []         # (statement index, offset of '=' inside the statement, tree slot)
    nl = lay["nl"]

    def emit(stmts, path, level):
        tree = []
        for i, s in enumerate(stmts):
            p = path + (i,)
            ind = ("  " * level) if lay["indent"] == "spaces" else ("\t" * (level + 1))
            if s[0] == "A":
                name, (vtext, vexp) = s[1], VALS[s[2]]
                if lay.get("names", "plain") == "pvlish":
                    name = {"a": "^a", "b": "ns:b", "c": "c-1", "d": "d.x"}[name]
                eq = lay["eq"] if count[0] >= lay["eqfrom"] else "same"
                count[0] += 1
                head = ind + name + (nl + ind + "=" if eq == "ownline" else
                                     " /* c */ =" if eq == "commented" else " =")
                if p in empty:
                    tail = {"bare": "", "semi": " ;", "hash": "   # no value given",
                            "comment": " /* none */", "hasheq": "  # value = none"}[lay["gap"]]
                    slot = [name, None]
                    tree.append(slot)
                    marks.append((len(stmts_out), len(head) - 1, slot))
                    stmts_out.append(head + tail)
                else:
                    sep = (nl + ind + "    ") if eq == "valuenext" else " "
                    stmts_out.append(head + sep + vtext + (";" if lay["delim"] else "") +
                                     (" /* t */" if lay["trail"] == "comment" else ""))
                    tree.append([name, vexp])
            else:
                stmts_out.append(ind + s[1] + " = " + s[2] + (";" if lay["delim"] else ""))
                sub = emit(s[3], p, level + 1)
                stmts_out.append(ind + "END_" + s[1] + (" = " + s[2] if s[4] else "") + (";" if lay["delim"] else ""))
                tree.append([s[2], (s[1][0], sub)])
        return tree

    tree = emit(doc, (), 0)
    if lay["end"]:
        stmts_out.append("END")
    # assemble
    pieces, offsets = [], {}
    pos = 0
    for i, st in enumerate(stmts_out):
        offsets[i] = pos
        pieces.append(st)
        pos += len(st)
        last = i == len(stmts_out) - 1
        if lay["pack"] and i % 2 == 0 and not last and "#" not in st:
            sep = " "
        else:
            sep = nl
            if lay["between"] == "blank":
                sep += nl
            elif lay["between"] == "comment":
                sep += "/* note = 1 */" + nl
            elif lay["between"] == "hashline":
                sep += "# note = 1" + nl
            elif lay["between"] == "comment2":
                sep += "/* ===== a = 1; b = 2 ===== */" + nl
            elif lay["between"] == "comment3":      # a comment over two lines, '=' on the second
                sep += "/* was:" + nl + "   a = 1 */" + nl
            elif lay["between"] == "hashline2":
                sep += "# was: a = 1, b = 2" + nl
            if last and not lay["end"] and "#" not in st:
                sep = ""
        pieces.append(sep)
        pos += len(sep)
    text = "".join(pieces)
    errs = []
    for si, off, slot in marks:
        line = text.count("\n", 0, offsets[si] + off) + 1
        assert text[offsets[si] + off] == "=", (text, si, off)
        slot[1] = ("EMPTY", line)
        errs.append(line)

    def fin(t):
        return [(k, (v[0], fin(v[1])) if isinstance(v, tuple) and v and v[0] in ("G", "O") else v)
                for k, v in t]
    return text, fin(tree), sorted(errs)


def conv(v):
    if isinstance(v, impl.EmptyValueAtLine):
        ok = (str(v) == "" and isinstance(v, str))
        return ("EMPTY", v.lineno) if ok else ("BAD-PLACEHOLDER", repr(v))
    if isinstance(v, impl.PVLGroup):
        return ("G", [(k, conv(x)) for k, x in v])
    if isinstance(v, impl.PVLObject):
        return ("O", [(k, conv(x)) for k, x in v])
    if isinstance(v, impl.Quantity):
        return ("Q", v.value, v.units)
    if isinstance(v, (set, frozenset)):
        return ("SET", sorted(v))
    return v


def typed(t):
    """(type name, value) recursively, so that 1 != True != 1.0"""
    if isinstance(t, (list, tuple)):
        return (type(t).__name__,) + tuple(typed(x) for x in t)
    return (type(t).__name__, t)


def check_text(doc, empty, layout):
    text, tree, errs = render(doc, set(empty), layout)
    out = []
    case = {"doc": doc, "empty": [list(e) for e in empty], "layout": layout}
    if "-\n" in text or "-\r" in text:
        return text, out
    r = loaders.outcome("OMNI", text)
    if r[0] != "ok":
        out.append({"case": case, "diagnosis": "default-loader-rejects:" + loaders.brief(r),
                    "detail": "text %r" % text})
    else:
        m = r[1]
        got = [(k, conv(v)) for k, v in m]
        if typed(got) != typed(tree):
            want_names = [k for k, _ in tree]
            kind = "statements" if [k for k, _ in got] != want_names else "values-or-lines"
            out.append({"case": case, "diagnosis": "wrong-" + kind,
                        "detail": "text %r: expected %r, got %r" % (text, tree, got)})
        elif list(getattr(m, "errors", ["<none>"])) != errs:
            out.append({"case": case, "diagnosis": "errors-attribute",
                        "detail": "text %r: expected errors %r, got %r" % (text, errs, getattr(m, "errors", None))})
        elif sum(1 for k in layout if layout[k] != CANON.get(k)) <= 1 and layout.get("eq", "same") == "same":
            # the result belongs to the caller: later loads (same parser object, and the convenience
            # function) must not reach back into it (does not depend on the layout: checked on the
            # canonical layout and its single deviations other than 'eq')
            import pvl
            loaders.outcome("OMNI", "q = 1\n\n\nr =\ns =\n")
            try:
                pvl.loads("z = 2\n")
                pvl.loads("\n\ny =\n")
            except Exception:  # noqa: BLE001
                pass
            got2 = [(k, conv(v)) for k, v in m]
            if typed(got2) != typed(tree) or list(getattr(m, "errors", ["<none>"])) != errs:
                out.append({"case": case, "diagnosis": "result-changed-by-a-later-load",
                            "detail": "text %r: after two other loads the module reads %r with errors %r, "
                                      "expected %r / %r" % (text, got2, getattr(m, "errors", None), tree, errs)})
    for d in impl.STRICT:
        r = loaders.outcome(d, text)
        if r[0] == "ok":
            out.append({"case": case, "diagnosis": "strict-parser-accepts:" + d,
                        "detail": "text %r loaded as %r" % (text, vjson.canon(r[1]))})
    return text, out


def shard(spec):
    doc_list, dev = spec
    acc = Acc()
    LAY = layouts(dev)
    for doc in doc_list:
        A = list(assigns(doc))
        for r in range(1, len(A) + 1):
            for empty in itertools.combinations(A, r):
                for layout in LAY:
                    text, vs = check_text(doc, empty, layout)
                    ln = lay_name(layout)
                    acc.n += 4
                    acc.traces += 1
                    acc.sets["neigh"].add((ln, r, len(A)))
                    if vs:
                        acc.outcomes["violation"] += 1
                        for v in vs:
                            acc.violation(v["case"], v["diagnosis"], v["detail"],
                                          sig=v["diagnosis"] + "|" + ln + "|" + text[:60])
                    else:
                        acc.nontrivial += 1
                        acc.outcomes["ok"] += 1
        acc.sample({"doc": doc, "example_text": render(doc, set(A[:1]), LAY[-1])[0]}, cap=1)
    return acc


def run(ctx):
    D = list(docs(ctx.quick))
    dev = 1.5 if ctx.quick else 3
    specs = [(D[i::128], dev) for i in range(128) if D[i::128]]
    acc = ctx.pmap(shard, specs)
    cov = {
        "evaluations": acc.n, "distinct_nontrivial": acc.nontrivial,
        "states": len(acc.sets["neigh"]), "transitions": acc.traces,
        "traces_validated_against_impl": acc.traces,
        "rule": "%d reference documents (flat 1-3 assignments over %d value kinds, 4 assignments with duplicate "
                "names, group/object with nested object, end names on/off) x every non-empty subset of "
                "assignments emptied x %d layouts (all <= %s-feature deviations (1.5 = all single deviations plus the listed feature pairs and triples) from one-statement-per-line over features %r); each text run on the default loader (tree, placeholder "
                "lines, errors) and on the strict PVL/ODL/PDS3 parsers (must raise); states = distinct "
                "(layout, gaps, assignments) neighbourhood classes; non-trivial = all four verdicts as required"
                % (len(D), len(VALS), len(layouts(dev)), dev, {k: [str(x) for x in v] for k, v in FEATURES.items()}),
        "outcome_histogram": dict(acc.outcomes),
        "samples": acc.samples[:6], "exhaustive": True,
    }
    return {"coverage": cov, "violations": acc.violations, "violations_total": acc.vio_total,
            "assumptions": ["names that are keywords of the value grammar and dash-continuations (which renumber "
                            "lines) are outside the alphabet",
                            "a gap before a quoted value / a sequence is read as that value (it is not a gap)"]}


def _tup(doc):
    return doc


def replay(case):
    empty = [tuple(e) for e in case["empty"]]
    _, vs = check_text(case["doc"], empty, case["layout"])
    return vs


def candidates(case):
    lay = case["layout"]
    for k in sorted(lay):
        if lay[k] != CANON[k]:
            yield dict(case, layout=dict(lay, **{k: CANON[k]}))
    e = case["empty"]
    for i in range(len(e)):
        if len(e) > 1:
            yield dict(case, empty=e[:i] + e[i + 1:])
