"""C08 - missing values are tolerated by the default loader and located exactly.

Engine E2 in Omni mode: every reference document of a family (flat documents
of 1-3 assignments over 8 value kinds, documents with a group/object and a
nested object) x every non-empty subset of its assignments emptied x every
layout (one per line, blank lines, two statements per line, comment lines,
CR-LF, '=' on its own line, no END, ';' after the gap).  The generator knows
on which line it wrote each '='.  Oracle: the default loader returns every
statement in order, an empty-str placeholder whose lineno is the 1-based line
of its '=' for each emptied parameter (all other values as written),
module.errors == sorted(those lines); the strict PVL, ODL and PDS3 parsers
raise LexerError/ParseError on the same text.
"""
import datetime as dt
import itertools

from ..runner import Acc
from ..lib import impl, loaders, vjson

LEVEL = "model_checking"

VALS = [("x", "x"), ("1", 1), ('"q r"', "q r"), ("(1, 2)", [1, 2]),
        ("1.5 <m>", ("Q", 1.5, "m")), ("2001-01-01", dt.date(2001, 1, 1)),
        ("NULL", None), ("{a, b}", ("SET", ["a", "b"])), ("-7", -7), ("'s'", "s")]
LAYOUTS = ["nl", "blank", "two", "comment", "crlf", "eqline", "noend", "semi", "hash", "indent"]


def docs(quick):
    names = ["a", "b", "c", "d"]
    vr = range(len(VALS))
    for n in (1, 2, 3):
        dom = vr if n < 3 else (0, 1, 3, 4)
        if quick and n == 2:
            dom = range(8)
        for vs in itertools.product(dom, repeat=n):
            yield [["A", names[i], v] for i, v in enumerate(vs)]
    core = (0, 1, 2) if not quick else (0, 1)
    for v1, v2, v3 in itertools.product(core, repeat=3):
        for kw in ("GROUP", "OBJECT"):
            for endname in (True, False):
                yield [["A", "a", v1], ["B", kw, "g", [["A", "b", v2], ["A", "c", v3]], endname],
                       ["A", "d", v1]]
                yield [["B", kw, "g", [["A", "b", v2], ["B", "OBJECT", "o", [["A", "c", v3]], endname],
                                       ["A", "d", v1]], endname]]
    # four assignments, adjacent gaps, duplicate names
    for vs in itertools.product((0, 1), repeat=4):
        yield [["A", n, v] for n, v in zip(["a", "a", "b", "a"], vs)]


def assigns(doc, path=()):
    for i, s in enumerate(doc):
        if s[0] == "A":
            yield path + (i,)
        else:
            yield from assigns(s[3], path + (i,))


def render(doc, empty, layout):
    """-> (text, expected tree, expected sorted error lines).  The expected
    tree uses ("EMPTY", line) for placeholders."""
    lines = []     # each entry is one physical line
    errs = []

    def emit(stmts, path, level):
        tree = []
        for i, s in enumerate(stmts):
            p = path + (i,)
            ind = ("  " * level) if layout != "indent" else ("\t" * (level + 1))
            if s[0] == "A":
                name, (vtext, vexp) = s[1], VALS[s[2]]
                if p in empty:
                    if layout == "eqline":
                        lines.append(ind + name)
                        lines.append(ind + "=")
                    elif layout == "semi":
                        lines.append(ind + name + " = ;")
                    elif layout == "hash":
                        lines.append(ind + name + " =   # no value given")
                    else:
                        lines.append(ind + name + " =")
                    ln = len(lines)
                    errs.append(ln)
                    tree.append((name, ("EMPTY", ln)))
                else:
                    if layout == "eqline":
                        lines.append(ind + name)
                        lines.append(ind + "= " + vtext)
                    else:
                        lines.append(ind + name + " = " + vtext + (";" if layout == "semi" else ""))
                    tree.append((name, vexp))
                if layout == "blank":
                    lines.append("")
                if layout == "comment":
                    lines.append(ind + "/* note = 1 */")
            else:
                lines.append(ind + s[1] + " = " + s[2])
                sub = emit(s[3], p, level + 1)
                lines.append(ind + "END_" + s[1] + (" = " + s[2] if s[4] else ""))
                tree.append((s[2], (s[1][0], sub)))
        return tree

    tree = emit(doc, (), 0)
    if layout != "noend":
        lines.append("END")
    nl = "\r\n" if layout == "crlf" else "\n"
    if layout == "two":
        new, mapping = [], {}
        for j in range(0, len(lines), 2):
            new.append(" ".join(lines[j:j + 2]))
            for k in (j, j + 1):
                mapping[k + 1] = len(new)

        def remap(t):
            out = []
            for k, v in t:
                if isinstance(v, tuple) and v and v[0] == "EMPTY":
                    out.append((k, ("EMPTY", mapping[v[1]])))
                elif isinstance(v, tuple) and v and v[0] in ("G", "O"):
                    out.append((k, (v[0], remap(v[1]))))
                else:
                    out.append((k, v))
            return out
        return nl.join(new), remap(tree), sorted(mapping[e] for e in errs)
    return nl.join(lines) + ("" if layout == "noend" else nl), tree, sorted(errs)


def conv(v):
    if isinstance(v, impl.EmptyValueAtLine):
        ok = (str(v) == "" and isinstance(v, str))
        return ("EMPTY", v.lineno) if ok else ("BAD-PLACEHOLDER", repr(v))
    if isinstance(v, impl.PVLGroup):
        return ("G", [(k, conv(x)) for k, x in v])
    if isinstance(v, impl.PVLObject):
        return ("O", [(k, conv(x)) for k, x in v])
    if isinstance(v, impl.Quantity):
        return ("Q", v.value, v.units)
    if isinstance(v, (set, frozenset)):
        return ("SET", sorted(v))
    return v


def typed(t):
    """(type name, value) recursively, so that 1 != True != 1.0"""
    if isinstance(t, (list, tuple)):
        return (type(t).__name__,) + tuple(typed(x) for x in t)
    return (type(t).__name__, t)


def check_text(doc, empty, layout):
    text, tree, errs = render(doc, set(empty), layout)
    out = []
    case = {"doc": doc, "empty": [list(e) for e in empty], "layout": layout}
    r = loaders.outcome("OMNI", text)
    if r[0] != "ok":
        out.append({"case": case, "diagnosis": "default-loader-rejects:" + loaders.brief(r),
                    "detail": "text %r" % text})
    else:
        m = r[1]
        got = [(k, conv(v)) for k, v in m]
        if typed(got) != typed(tree):
            want_names = [k for k, _ in tree]
            kind = "statements" if [k for k, _ in got] != want_names else "values-or-lines"
            out.append({"case": case, "diagnosis": "wrong-" + kind,
                        "detail": "text %r: expected %r, got %r" % (text, tree, got)})
        elif list(getattr(m, "errors", ["<none>"])) != errs:
            out.append({"case": case, "diagnosis": "errors-attribute",
                        "detail": "text %r: expected errors %r, got %r" % (text, errs, getattr(m, "errors", None))})
    for d in impl.STRICT:
        r = loaders.outcome(d, text)
        if r[0] == "ok":
            out.append({"case": case, "diagnosis": "strict-parser-accepts:" + d,
                        "detail": "text %r loaded as %r" % (text, vjson.canon(r[1]))})
    return text, out


def shard(doc_list):
    acc = Acc()
    for doc in doc_list:
        A = list(assigns(doc))
        for r in range(1, len(A) + 1):
            for empty in itertools.combinations(A, r):
                for layout in LAYOUTS:
                    text, vs = check_text(doc, empty, layout)
                    acc.n += 4
                    acc.traces += 1
                    acc.sets["neigh"].add((layout, r, len(A)))
                    if vs:
                        acc.outcomes["violation"] += 1
                        for v in vs:
                            acc.violation(v["case"], v["diagnosis"], v["detail"],
                                          sig=v["diagnosis"] + "|" + layout + "|" + text[:60])
                    else:
                        acc.nontrivial += 1
                        acc.outcomes["ok:" + layout] += 1
        acc.sample({"doc": doc}, cap=1)
    return acc


def run(ctx):
    D = list(docs(ctx.quick))
    specs = [D[i::128] for i in range(128) if D[i::128]]
    acc = ctx.pmap(shard, specs)
    cov = {
        "evaluations": acc.n, "distinct_nontrivial": acc.nontrivial,
        "states": len(acc.sets["neigh"]), "transitions": acc.traces,
        "traces_validated_against_impl": acc.traces,
        "rule": "%d reference documents (flat 1-3 assignments over %d value kinds, 4 assignments with duplicate "
                "names, group/object with nested object, end names on/off) x every non-empty subset of "
                "assignments emptied x %d layouts %r; each text run on the default loader (tree, placeholder "
                "lines, errors) and on the strict PVL/ODL/PDS3 parsers (must raise); states = distinct "
                "(layout, gaps, assignments) neighbourhood classes; non-trivial = all four verdicts as required"
                % (len(D), len(VALS), len(LAYOUTS), LAYOUTS),
        "layout_histogram": dict(acc.outcomes),
        "samples": acc.samples[:6], "exhaustive": True,
    }
    return {"coverage": cov, "violations": acc.violations, "violations_total": acc.vio_total,
            "assumptions": ["names that are keywords of the value grammar and dash-continuations (which renumber "
                            "lines) are outside the alphabet",
                            "a gap before a quoted value / a sequence is read as that value (it is not a gap)"]}


def _tup(doc):
    return doc


def replay(case):
    empty = [tuple(e) for e in case["empty"]]
    _, vs = check_text(case["doc"], empty, case["layout"])
    return vs


def candidates(case):
    if case["layout"] != "nl":
        yield dict(case, layout="nl")
    e = case["empty"]
    for i in range(len(e)):
        if len(e) > 1:
            yield dict(case, empty=e[:i] + e[i + 1:])
