"""C15 - strict dialects enforce their character set; the default accepts all.

Engine E6.  (a) grammar.char_allowed for ALL 1,114,112 code points x the five
grammars against the specification tables (PVL/ISIS: ISO 8859-1 without the
control ranges 0-8, 14-31, 127-159; ODL/PDS3: 7-bit ASCII; default: all).
(b) every code point of a boundary-rich set x every syntactic position
(parameter name, unquoted value, inside "..." and '...', comment, units,
between statements, first / last character, second line, after END) x
{PVL, ODL, PDS3, default}.  Oracle: a forbidden character before END gives a
LexerError with doc == text, 0 <= pos <= index of the character, pos not
before the start of the construct that contains it, lineno == 1 + number of
line feeds before pos, colno == pos - index of the last line feed before pos;
an allowed character inside a quoted string or comment loads and the string
comes back unchanged (folded for the ODL-family decoders); after END it is
ignored; the default grammar accepts every code point.
"""
import re

from ..runner import Acc
from ..lib import impl, loaders

LEVEL = "exploration"

WSCHARS = " \t\n\r\f\v"


def spec_allowed(dialect, o):
    if dialect in ("PVL", "ISIS"):
        return not (o > 255 or 0 <= o <= 8 or 14 <= o <= 31 or 127 <= o <= 159)
    if dialect in ("ODL", "PDS3"):
        return o <= 127
    return True


def shard_table(spec):
    lo, hi = spec
    acc = Acc()
    grammars = {d: impl.make_grammar_decoder(d)[0] for d in impl.DIALECTS}
    for o in range(lo, hi):
        c = chr(o)
        order = loaders.dialect_order(o)
        for di, d in enumerate(order):
            g = grammars[d]
            acc.n += 1
            try:
                got = g.char_allowed(c)
            except Exception as e:  # noqa: BLE001
                got = "raised " + type(e).__name__
            if got is not spec_allowed(d, o):
                acc.violation({"kind": "table", "dialect": d, "codepoint": o, "prior_dialects": order[:di]},
                              "character-table:" + d,
                              "U+%04X: char_allowed gives %r, the specification says %r" % (o, got, spec_allowed(d, o)),
                              sig="table|%s|%d" % (d, o))
            else:
                acc.nontrivial += 1
    acc.sample({"table_range": [lo, hi]}, cap=1)
    return acc


# (position name, template with {c}, index of construct start relative to template, demand)
# demand: 'string' -> value of k must be "a{c}b"; 'comment' -> loads to k=1; 'any' -> totality only
POSITIONS = [
    ("name", "a{c}b = 1\n", 0, "any"),
    ("unquoted-value", "k = a{c}b\n", 4, "any"),
    ("double-quoted", 'k = "a{c}b"\nj = 2\n', 4, "string"),
    ("single-quoted", "k = 'a{c}b'\n", 4, "string"),
    ("comment", "/* a{c}b */ k = 1\n", 0, "comment"),
    ("units", "k = 1 <m{c}s>\n", 6, "any"),
    ("between", "k = 1\n{c}\nj = 2\n", 6, "any"),
    ("first", "{c}k = 1\n", 0, "any"),
    ("last", "k = 1\n{c}", 6, "any"),
    ("second-line-string", 'x = 0\nk = "a{c}b"\n', 10, "string"),
    ("after-second-line-feed", "x = 0\n\n\nk = a{c}\n", 12, "any"),
    ("multi-line-string-line-2", 'x = 0\nk = "a\n  b{c}d"\n', 10, "any"),
    ("multi-line-string-line-3", "k = 'a\n\n{c}'\n", 4, "any"),
    ("multi-line-comment-line-2", "/* a\n b{c} */ k = 1\n", 0, "comment"),
    ("after-bare-cr", 'x = 0\ry = 1\rk = "a{c}b"\r', 16, "any"),
    ("after-lf-cr", "x = 0\n\rk = a{c}b\n", 11, "any"),
    ("after-crlf", 'x = 0\r\nk = "a{c}b"\r\n', 11, "any"),
    ("after-end", "k = 1\nEND\n{c}{c} junk", None, "after-end"),
    ("immediately-after-end", "k = 1\nEND{c}junk", None, "after-end-forbidden-only"),
    # a stray character in the gaps of block statements, sequences and units
    ("after-begin-keyword", "GROUP {c}= g\n k = 1\nEND_GROUP\n", 6, "any"),
    ("after-begin-equals", "GROUP = {c} g\n k = 1\nEND_GROUP\n", 8, "any"),
    ("after-block-name", "GROUP = g {c}\n k = 1\nEND_GROUP\n", 10, "any"),
    ("after-end-keyword", "GROUP = g\n k = 1\nEND_GROUP {c} j = 2\n", 27, "any"),
    ("after-end-keyword-equals", "OBJECT = g\n k = 1\nEND_OBJECT = {c}g\n", 31, "any"),
    ("after-name", "k {c}= 1\nj = 2\n", 2, "any"),
    ("after-equals", "k = {c} 1\nj = 2\n", 4, "any"),
    ("in-sequence", "k = (1, {c} 2)\nj = 2\n", 8, "any"),
    ("after-sequence", "k = (1, 2) {c}\nj = 2\n", 11, "any"),
    ("before-units", "k = 1 {c} <m>\nj = 2\n", 6, "any"),
    ("after-delimiter", "k = 1; {c}\nj = 2\n", 7, "any"),
    ("before-end", "k = 1\n{c} END\n", 6, "any"),
    # far from any blank: long lexemes and long lines without white space
    ("in-long-sequence", "k=(1.0,2.0,3.0,4.0,5.0,6.0,{c}7.0,8.0,9.0,10.0,11.0,12.0)\n", 2, "any"),
    ("in-long-name", "a_very_long_parameter_name_of_{c}more_than_thirty_characters=1\n", 0, "any"),
    ("in-long-string", 'x=0\nk="aaaaaaaaaaaaaaaaaaaaaaaaa{c}bbbbbbbbbbbbbbbbbbbbbbbbbbbbbbbb"\n', 6, "any"),
    # deep inside long lexemes (error reports that keep only part of the lexeme), and behind tabs on the same line
    ("deep-in-long-string", 'x = 0\nk = "' + "a" * 130 + "{c}" + "b" * 40 + '"\n', 10, "any"),
    ("deep-in-long-comment", "/* " + "c" * 130 + "{c}" + " */ k = 1\n", 0, "comment"),
    ("deep-in-multi-line-string", 'k = "' + ("line of text\n" * 12) + "{c}" + ' end"\n', 4, "any"),
    ("behind-tabs", 'x = 0\n\tk\t=\t"a{c}b"\n', 11, "any"),
    ("behind-tabs-unquoted", "\tk =\t\t{c}v\n", 6, "any"),
    ("in-compact-lines", "A=1\nB=2\nC=3\nD=4\nE=5\nF={c}6\nG=7\nH=8\nI=9\nJ=10\nK=11\nL=12\n", 22, "any"),
]


def codepoints(quick):
    s = set()
    for e in (0, 8, 9, 13, 14, 31, 32, 126, 127, 128, 159, 160, 255, 256):
        for x in (e - 1, e, e + 1):
            if x >= 0:
                s.add(x)
    s |= set(range(0, 0x180))
    if not quick:
        # thorough: the whole Basic Multilingual Plane and a regular grid over the other planes
        s |= set(range(0, 0x10000)) | set(range(0x10000, 0x110000, 0x101))
    s |= {0x2028, 0x2029, 0x85, 0xA0, 0xAD, 0x3000, 0xD7FF, 0xD800, 0xDFFF, 0xE000, 0xFEFF, 0xFFFD, 0xFFFE,
          0xFFFF, 0x10000, 0x1F600, 0x10FFFF, 0x0394, 0x4E2D}
    return sorted(s)


def fold(s):
    nodash = re.sub(r"-[\n\r\v\f][ \t\n\r\v\f]*", "", s)
    return re.sub(r"[ \t\n\r\f\v]+", " ", nodash.strip(WSCHARS))


def filler(n):
    """exactly n characters of well-formed label text: one statement, then a comment to make up the rest
    (few tokens, so that long texts stay cheap)"""
    if n < 5:
        return " " * n
    if n < 12:
        return "/*" + "x" * (n - 5) + "*/\n"
    return "a = 1\n" + "/*" + "x" * (n - 11) + "*/\n"


OFFSET_KINDS = {"begins-name": ("{c}k = 1\n", 0), "begins-value": ("k = {c}v\n", 4), "in-string": ('k = "a{c}b"\n', 4),
                "in-units": ("k = 1 <  {c}m>\n", 6), "in-units-after-newline": ("k = 1 <\n {c}m>\n", 6)}


def offset_template(kind, n):
    """the character sits at absolute index n + (its index in the short template)"""
    t, start = OFFSET_KINDS[kind]
    f = filler(n)
    assert len(f) == n, (n, len(f))
    return ("offset:%s@%d" % (kind, n), f + t, n + start, "any")


def check(d, posname, o):
    if posname.startswith("offset:"):
        kind, n = posname[7:].split("@")
        tmpl = offset_template(kind, int(n))
    else:
        tmpl = {p[0]: p for p in POSITIONS}[posname]
    _, t, start, demand = tmpl
    c = chr(o)
    text = t.replace("{c}", c)
    idx = t.index("{c}")
    allowed = spec_allowed(d, o)
    out = []
    case = {"kind": "position", "dialect": d, "position": posname, "codepoint": o}
    if d == "OMNI" and re.search(r"-[\n\r\f]", text):
        return out, "skip"
    r = loaders.outcome(d, text)
    if demand == "after-end-forbidden-only":
        if allowed:
            return out, "skip"
        demand = "after-end"
    if demand == "after-end":
        if r[0] != "ok" or [(k, v) for k, v in r[1]] != [("k", 1)]:
            out.append({"case": case, "diagnosis": "text-after-END-matters:" + d,
                        "detail": "%r -> %s" % (text, loaders.brief(r))})
        return out, "after-end"
    if not allowed:
        if r[0] != "doc" or r[1] != "LexerError":
            out.append({"case": case, "diagnosis": "forbidden-character-accepted:" + d,
                        "detail": "U+%04X at %s: %r -> %s" % (o, posname, text, loaders.brief(r))})
            return out, "forbidden"
        e = r[2]
        probs = []
        if e.doc != text:
            probs.append("doc is not the text")
        if not (0 <= e.pos <= idx):
            probs.append("pos %r is not in 0..%d (index of the character)" % (e.pos, idx))
        elif e.pos < start:
            probs.append("pos %r is before the construct that holds the character (starts at %d)" % (e.pos, start))
        lexeme = getattr(e, "lexeme", None)
        if isinstance(lexeme, str) and lexeme and isinstance(e.pos, int) and 0 <= e.pos <= idx \
                and text[e.pos:e.pos + len(lexeme)] != lexeme:
            probs.append("the text at pos %r reads %r, not the reported lexeme %r"
                         % (e.pos, text[e.pos:e.pos + len(lexeme)], lexeme))
        want_line = text.count("\n", 0, max(e.pos, 0)) + 1
        want_col = e.pos - text.rfind("\n", 0, max(e.pos, 0))
        if e.lineno != want_line:
            probs.append("lineno %r, pos %r is on line %d" % (e.lineno, e.pos, want_line))
        if e.colno != want_col:
            probs.append("colno %r, pos %r is at column %d" % (e.colno, e.pos, want_col))
        if probs:
            out.append({"case": case, "diagnosis": "error-position-inconsistent:" + d,
                        "detail": "U+%04X at %s in %r: %s" % (o, posname, text, "; ".join(probs))})
        return out, "forbidden"
    # allowed character
    if r[0] not in ("ok", "doc"):
        return out, "not-total(C06)"
    if demand == "string":
        q = '"' if "\"a" in t else "'"
        if c == q:
            return out, "skip"
        want = "a" + c + "b"
        if d in ("ODL", "PDS3", "OMNI"):
            want = fold(want)
        if r[0] != "ok":
            out.append({"case": case, "diagnosis": "allowed-character-rejected-in-string:" + d,
                        "detail": "U+%04X in %r: %s" % (o, text, loaders.brief(r))})
        else:
            got = dict((k, v) for k, v in r[1]).get("k")
            if not (isinstance(got, str) and str(got) == want):
                out.append({"case": case, "diagnosis": "character-altered-in-string:" + d,
                            "detail": "U+%04X in %r: expected %r, got %r" % (o, text, want, got)})
        return out, "string"
    if demand == "comment":
        if c in "*/":
            return out, "skip"
        if d == "OMNI" and c == "#":
            pass
        if r[0] != "ok" or [(k, v) for k, v in r[1]] != [("k", 1)]:
            out.append({"case": case, "diagnosis": "allowed-character-breaks-comment:" + d,
                        "detail": "U+%04X in %r: %s" % (o, text, loaders.brief(r))})
        return out, "comment"
    return out, "any"


def shard_positions(cps):
    acc = Acc()
    for o in cps:
        order = loaders.dialect_order(o, ("PVL", "ODL", "PDS3", "OMNI", "ISIS"))
        for di, d in enumerate(order):
            for p in POSITIONS:
                vs, kind = check(d, p[0], o)
                for v in vs:
                    v["case"]["prior_dialects"] = order[:di]
                acc.n += 1
                if d == "ISIS":
                    # not claimed by the property: information only
                    acc.outcomes["isis-info" + ("-diff" if vs else "")] += 1
                    continue
                acc.outcomes[kind if not vs else "violation"] += 1
                if vs:
                    for v in vs:
                        acc.violation(v["case"], v["diagnosis"], v["detail"],
                                      sig="%s|%s|%s" % (v["diagnosis"], p[0], "U+%04X" % o if o < 0x180 else "high"))
                elif kind not in ("skip", "any", "not-total(C06)"):
                    acc.nontrivial += 1
    acc.sample({"codepoints": ["U+%04X" % o for o in cps[:3]]}, cap=1)
    return acc


OFFSET_CPS = [0x01, 0xe9, 0x4e2d]      # forbidden in PVL+ODL / ODL only / every strict dialect


def shard_offsets(spec):
    """the same few characters at EVERY absolute index of a long text (scanners that work in blocks,
    buffers or windows have boundaries somewhere)"""
    acc = Acc()
    for n in spec:
        for kind in OFFSET_KINDS:
            for o in OFFSET_CPS:
                for d in ("PVL", "ODL", "PDS3", "OMNI"):
                    vs, k = check(d, "offset:%s@%d" % (kind, n), o)
                    acc.n += 1
                    acc.outcomes[k if not vs else "violation"] += 1
                    if vs:
                        for v in vs:
                            acc.violation(v["case"], v["diagnosis"], v["detail"],
                                          sig="%s|offset:%s|%d" % (v["diagnosis"], kind, n % 64))
                    elif k not in ("skip", "any", "not-total(C06)"):
                        acc.nontrivial += 1
    acc.sample({"offsets": list(spec)[:5]}, cap=1)
    return acc


def run(ctx):
    acc = Acc()
    step = 0x110000 // 64 + 1
    ctx.pmap(shard_table, [(lo, min(lo + step, 0x110000)) for lo in range(0, 0x110000, step)], into=acc)
    if ctx.quick:
        # every index up to 260, then +/-3 around every power of two up to 8192 (block, buffer and window sizes)
        offs = sorted(set(range(0, 261)) | {2 ** k + d for k in range(8, 14) for d in range(-3, 4)})
    else:
        offs = list(range(0, 8300))
    ctx.pmap(shard_offsets, [offs[i::96] for i in range(96)], into=acc)
    cps = codepoints(ctx.quick)
    nsh = 64 if ctx.quick else 1024
    ctx.pmap(shard_positions, [cps[i::nsh] for i in range(nsh)], into=acc)
    cov = {
        "evaluations": acc.n, "distinct_nontrivial": acc.nontrivial,
        "rule": "(a) all 1,114,112 code points x 5 grammars against the specification tables; (b) %d code points "
                "(every range edge +/-1, %s exhaustively, surrogates, plane boundaries, specials) x %d "
                "positions x {PVL, ODL, PDS3, default} (ISIS run for information only); (c) 3 characters x 5 "
                "token positions at %s of a long well-formed text; non-trivial = a table entry "
                "compared, or a position case where the property demands a specific outcome (LexerError with "
                "consistent attributes / string unchanged / comment ignored / text after END ignored)"
                % (len(cps), "U+0000..U+017F" if ctx.quick else "U+0000..U+FFFF, every 257th code point above",
                   len(POSITIONS), "every absolute index 0..260 and +/-3 around every power of two up to 8192"
                   if ctx.quick else "every absolute index 0..8299"),
        "outcome_histogram": dict(acc.outcomes),
        "samples": acc.samples[:6], "exhaustive": True,
    }
    return {"coverage": cov, "violations": acc.violations, "violations_total": acc.vio_total,
            "assumptions": ["ISIS is not claimed by the property (reported for information only)",
                            "an allowed character in a parameter name / unquoted value / units / between statements "
                            "may or may not be valid there for other reasons: only totality is demanded"]}


def replay(case):
    if case["kind"] == "table":
        for d in case.get("prior_dialects", []):
            impl.make_grammar_decoder(d)[0].char_allowed(chr(case["codepoint"]))
        g = impl.make_grammar_decoder(case["dialect"])[0]
        got = g.char_allowed(chr(case["codepoint"]))
        if got is not spec_allowed(case["dialect"], case["codepoint"]):
            return [{"case": case, "diagnosis": "character-table:" + case["dialect"], "detail": repr(got)}]
        return []
    for d in case.get("prior_dialects", []):
        for p in POSITIONS:
            check(d, p[0], case["codepoint"])
    return check(case["dialect"], case["position"], case["codepoint"])[0]
