"""C04 - white space and comments never change the meaning of a label.

Engine E3 (deviation-bounded layouts).  A base is a token list; between every
two tokens (and before the first / after the last) is a gap.  The canonical
layout puts one space in every gap.  Explored: every layout that differs from
the canonical one in at most d gaps (d = 1 with the full separator alphabet,
d = 2 with a core alphabet, the full product for bases with few gaps), where
the empty separator is offered only where the grammar makes white space
optional (around '=', ',', brackets, ';', before units, at the ends of the
text).  Oracle: every layout loads, in every dialect, to the reference tree of
the token list (R2) - which is also what the canonical layout loads to.
Also: the tests/data corpus re-tokenised by a trivial scanner (used only when
its canonical re-rendering loads to the same module as the original file),
every single-gap deviation.  Coverage: (left kind, separator, right kind)
triples exercised.
"""
import glob
import itertools
import os

from ..runner import Acc
from ..lib import impl, loaders, tokens as T, refgrammar as R

LEVEL = "exploration"

WS = [" ", "\t", "\n", "\r\n", "\f", "\v", "  \n  ", " \t ", "\n\n\n"]
COMMENTS = ["/* c */", " /* c */ ", "/**/", "/* a\n b */", " /* = , ( \" */\n", "/* END */ ", "/* c *//* d */",
            "/* item #3\n next line */", " /* it's <m ; } */ ", "/* * / ** */"]
HASH = [" # c\n", "\n# c = (\n", " #\n", "\t# END\n  "]
CORE = [" ", "\n", "\r\n", "\t", "/* c */", " /* x = ( #\n' */\n", "\f"]
OPTIONAL_KINDS = ("EQ", "COMMA", "LP", "RP", "LB", "RB", "SEMI")


def V(text, val):
    return ("VAL", text, val)


def bases():
    N = lambda s: ("NAME", s, None)        # noqa: E731
    Qd = ("QUOTED", '"q r"', "q r")
    Qs = ("QUOTED", "'x'", "x")
    U = T.UNITS
    return [
        [T.A, T.EQ, T.ONE, T.B, T.EQ, Qd, T.END],
        [T.A, T.EQ, T.LP, T.ONE, T.COMMA, Qs, T.COMMA, T.LP, V("2", 2), T.RP, T.RP, T.SEMI,
         T.B, T.EQ, T.LB, T.ONE, T.COMMA, N("abc"), T.RB, N("c"), T.EQ, V("1.5", 1.5), U, T.SEMI],
        [T.GROUP, T.EQ, N("g"), T.A, T.EQ, T.ONE, T.OBJECT, T.EQ, N("o"), T.B, T.EQ, V("-7", -7),
         T.END_OBJECT, T.EQ, N("o"), T.END_GROUP, T.EQ, N("g"), T.END],
        [T.A, T.EQ, V("16#FF#", 255), U, T.B, T.EQ, T.LP, T.ONE, U, T.COMMA, V("+2", 2), T.RP,
         N("c"), T.EQ, N("abc"), N("d"), T.EQ, Qd, N("e"), T.EQ, V("-1.5E3", -1500.0)],
        [T.OBJECT, T.EQ, N("o"), T.SEMI, T.A, T.EQ, Qs, T.SEMI, T.END_OBJECT, T.SEMI, T.B, T.EQ, T.LB, T.RB,
         T.END, T.SEMI],
        [T.A, T.EQ, T.LP, T.LP, T.ONE, T.COMMA, V("2", 2), T.RP, T.COMMA, T.LP, N("x"), T.RP, T.RP,
         T.GROUP, T.EQ, N("g"), N("y"), T.EQ, Qs, T.END_GROUP, N("z"), T.EQ, V(".5", 0.5)],
        [T.A, T.EQ, Qd, T.B, T.EQ, Qs, N("c"), T.EQ, T.LP, Qd, T.COMMA, Qs, T.RP, N("d"), T.EQ, N("x"),
         N("e"), T.EQ, T.ONE, T.END],
        [T.A, T.EQ, T.ONE],
        [T.A, T.EQ, T.LP, T.ONE, T.RP, T.SEMI],
    ] + omni_bases()


def omni_bases():
    """labels with missing values: loadable by the permissive loader only (reference: R2 in omni
    mode); the layouts around an empty value, a quoted string and a ';' are exactly where the
    repair code looks at the raw text"""
    N = lambda s: ("NAME", s, None)        # noqa: E731
    Qd = ("QUOTED", '"q r"', "q r")
    Qs = ("QUOTED", "'x'", "x")
    return [
        [T.A, T.EQ, Qd, N("e"), T.EQ, T.B, T.EQ, T.ONE],
        [T.A, T.EQ, Qs, T.SEMI, N("e"), T.EQ, T.B, T.EQ, T.ONE, T.END],
        [T.GROUP, T.EQ, N("g"), N("e"), T.EQ, T.END_GROUP, T.A, T.EQ, Qs, N("f"), T.EQ, T.SEMI,
         T.B, T.EQ, T.LP, T.ONE, T.RP, N("h"), T.EQ],
    ]


OMNI_FROM = 9          # bases()[OMNI_FROM:] are the missing-value labels


def kind(tok):
    if tok[0] == "VAL":
        return "NUM"
    return tok[0]


def optional(left, right):
    """may the gap between left and right be empty?"""
    if left is None or right is None:
        return True
    if left[0] in OPTIONAL_KINDS or right[0] in OPTIONAL_KINDS:
        return True
    if right[0] == "UNITS":
        return True
    return False


def sep_ok(sep, left, right, dialect):
    if sep == "":
        return optional(left, right)
    if sep.startswith("/") and left is not None and left[1].endswith(("/", "*")):
        return False
    if sep.endswith("/") and right is not None and right[1].startswith(("/", "*")):
        return False
    if "#" in sep and dialect not in ("ISIS", "OMNI", "ISISx"):
        return False
    if "#" in sep and not sep[0] in " \t\n" and left is not None:
        return False
    return True


def gaps_of(seq):
    """gap i sits before token i; gap len(seq) after the last token.  Gaps after
    an END token are not varied (the text after END is not looked at)."""
    n = len(seq)
    stop = n
    for i, t in enumerate(seq):
        if t[0] == "END":
            stop = i + 1
            break
    return list(range(0, stop + 1)) if stop == n else list(range(0, stop))


def render(seq, seps):
    """seps: dict gap index -> separator; default ' ' between tokens, '' at the ends"""
    out = []
    n = len(seq)
    for i in range(n + 1):
        default = "" if i in (0, n) else " "
        out.append(seps.get(i, default))
        if i < n:
            out.append(seq[i][1])
    return "".join(out)


def neighbours(seq, g):
    left = seq[g - 1] if g > 0 else None
    right = seq[g] if g < len(seq) else None
    return left, right


def needs_ws_padding(sep, left, right):
    """a comment-only separator in a gap where white space is REQUIRED still
    separates the tokens (a comment is a token of its own)"""
    return False


def judge(acc, d, seq, want, seps, payload):
    text = render(seq, seps)
    if d in ("ISIS", "OMNI", "ISISx") and _dash(text):
        return
    r = loaders.outcome(d, text)
    acc.n += 1
    for g, s in seps.items():
        left, right = neighbours(seq, g)
        acc.sets["triples"].add((kind(left) if left else "BOF", _sepclass(s), kind(right) if right else "EOF"))
    if r[0] == "ok" and T.loose(r[1]) == want:
        acc.nontrivial += 1
        acc.outcomes["equal"] += 1
        return
    case = {"dialect": d, "seps": {str(k): v for k, v in seps.items()}}
    case.update(payload)
    if r[0] == "ok":
        acc.violation(case, "layout-changes-module:" + d,
                      "text %r loads to %r, canonical layout to %r" % (text, T.loose(r[1]), want),
                      sig="%s|changed|%s" % (d, _sig(seq, seps)))
    else:
        acc.violation(case, "layout-breaks-load:" + d,
                      "text %r: %s %s" % (text, loaders.brief(r), str(r[2])[:120] if len(r) > 2 else ""),
                      sig="%s|broken|%s" % (d, _sig(seq, seps)))
    acc.outcomes["violation"] += 1


def _dash(text):
    import re
    return re.search(r"-[\n\r\f]", text) is not None


def _sepclass(s):
    if s == "":
        return "empty"
    if "#" in s:
        return "hash-comment"
    if "/*" in s:
        return "comment" if s.strip(" \t\r\n\f\v") == s else "comment+ws"
    return {" ": "space", "\t": "tab", "\n": "LF", "\r\n": "CRLF", "\f": "FF", "\v": "VT"}.get(s, "ws-run")


def _sig(seq, seps):
    parts = []
    for g, s in sorted(seps.items()):
        left, right = neighbours(seq, g)
        parts.append("%s[%s]%s" % (kind(left) if left else "BOF", _sepclass(s), kind(right) if right else "EOF"))
    return ",".join(parts)


def seps_for(d, left, right, alphabet):
    out = []
    for s in alphabet:
        if sep_ok(s, left, right, d):
            out.append(s)
    return out


def reference(seq, d, bi=0):
    v = R.verdict(seq, "omni" if bi >= OMNI_FROM else T.MODE[d])
    assert v[0] == "WELL", (T.render(seq), d, v)
    return T.tree_canon(v[1])


def shard_base(spec):
    d, bi, mode, part, nparts = spec
    seq = bases()[bi]
    want = reference(seq, d, bi)
    acc = Acc()
    G = gaps_of(seq)
    full = [""] + WS + COMMENTS + HASH
    j = 0
    if mode == "d1":
        for g in G:
            left, right = neighbours(seq, g)
            for s in seps_for(d, left, right, full):
                j += 1
                if j % nparts == part:
                    judge(acc, d, seq, want, {g: s}, {"base": bi})
    elif mode == "d2":
        core = [""] + CORE + ([" # c\n"] if d in ("ISIS", "OMNI", "ISISx") else [])
        for g1, g2 in itertools.combinations(G, 2):
            l1, r1 = neighbours(seq, g1)
            l2, r2 = neighbours(seq, g2)
            for s1 in seps_for(d, l1, r1, core):
                for s2 in seps_for(d, l2, r2, core):
                    j += 1
                    if j % nparts == part:
                        judge(acc, d, seq, want, {g1: s1, g2: s2}, {"base": bi})
    elif mode == "all":
        core = ["", " ", "\n", "/* c */", "\t\r\n"]
        choices = [seps_for(d, *neighbours(seq, g), core) for g in G]
        for combo in itertools.product(*choices):
            j += 1
            if j % nparts == part:
                judge(acc, d, seq, want, dict(zip(G, combo)), {"base": bi})
    acc.sample({"dialect": d, "base": T.render(seq), "mode": mode}, cap=1)
    return acc


# ------------------------------------------------------------------ corpus

def scan(text):
    """Trivial reference scanner: returns a list of (kind, text) or None when the
    text uses something it does not understand."""
    toks = []
    i, n = 0, len(text)
    single = {"=": "EQ", ",": "COMMA", "(": "LP", ")": "RP", "{": "LB", "}": "RB", ";": "SEMI"}
    while i < n:
        c = text[i]
        if c in " \t\r\n\f\v":
            i += 1
        elif text.startswith("/*", i):
            j = text.find("*/", i + 2)
            if j < 0:
                return None
            i = j + 2
        elif c in "\"'":
            j = text.find(c, i + 1)
            if j < 0:
                return None
            toks.append(("QUOTED", text[i:j + 1]))
            i = j + 1
        elif c == "<":
            j = text.find(">", i + 1)
            if j < 0:
                return None
            toks.append(("UNITS", text[i:j + 1]))
            i = j + 1
        elif c in single:
            toks.append((single[c], c))
            i += 1
        elif c == "#" and (not toks or True) and (i == 0 or text[i - 1] in " \t\r\n"):
            return None          # '#' comments: the scanner does not try
        else:
            j = i
            while j < n and text[j] not in " \t\r\n\f\v=,(){};\"'<" and not text.startswith("/*", j):
                j += 1
            w = text[i:j]
            if w.endswith("-"):
                return None      # possible dash continuation
            up = w.upper()
            if up == "END":
                toks.append(("END", w))
                return toks
            toks.append(("WORD", w))
            i = j
    return toks


def corpus():
    root = os.path.join(impl.REPO, "tests", "data")
    out = []
    for f in sorted(glob.glob(os.path.join(root, "**", "*"), recursive=True)):
        if not os.path.isfile(f) or f.endswith(".cub"):
            continue
        try:
            text = open(f, encoding="utf-8").read()
        except UnicodeDecodeError:
            continue
        out.append((os.path.relpath(f, impl.REPO), text))
    return out


def corpus_optional(left, right):
    if left is None or right is None:
        return True
    return left[0] in OPTIONAL_KINDS or right[0] in OPTIONAL_KINDS or right[0] == "UNITS"


def shard_corpus(spec):
    fname, text, lo, hi, sepset = spec
    acc = Acc()
    toks = scan(text)
    if not toks:
        acc.extra["corpus_skipped"] += 1
        return acc
    r0 = loaders.outcome("OMNI", text)
    canon_text = " ".join(t[1] for t in toks)
    r1 = loaders.outcome("OMNI", canon_text)
    if r0[0] != "ok" or r1[0] != "ok" or T.loose(r0[1]) != T.loose(r1[1]) or getattr(r0[1], "errors", []):
        acc.extra["corpus_skipped"] += 1       # scanner's reading not validated: not used
        return acc
    want = T.loose(r1[1])
    if lo == 0:
        acc.extra["corpus_used"] += 1
    seq = [("X", t[1], None) for t in toks]
    for g in range(max(lo, 1), min(hi, len(toks))):
        left, right = toks[g - 1], toks[g]
        for s in sepset:
            if s == "" and not corpus_optional(left, right):
                continue
            if s.startswith("/") and left[1].endswith(("/", "*")):
                continue
            if s.endswith("/") and right[1].startswith(("/", "*")):
                continue
            t2 = " ".join(t[1] for t in toks[:g]) + s + " ".join(t[1] for t in toks[g:])
            if _dash(t2):
                continue
            r = loaders.outcome("OMNI", t2)
            acc.n += 1
            acc.sets["triples"].add((left[0], _sepclass(s), right[0]))
            if r[0] == "ok" and T.loose(r[1]) == want:
                acc.nontrivial += 1
                acc.outcomes["corpus-equal"] += 1
            else:
                acc.outcomes["violation"] += 1
                acc.violation({"file": fname, "gap": g, "sep": s, "dialect": "OMNI"},
                              "layout-changes-corpus-file",
                              "%s: separator %r between %r and %r: %s" % (fname, s, left[1], right[1], loaders.brief(r)),
                              sig="corpus|%s[%s]%s" % (left[0], _sepclass(s), right[0]))
    return acc


def run(ctx):
    acc = Acc()
    B = bases()
    specs = []
    for d in tuple(impl.DIALECTS) + ("ISISx",):
        for bi, seq in enumerate(B):
            if bi >= OMNI_FROM and d not in ("OMNI", "ISISx"):
                continue
            ng = len(gaps_of(seq))
            specs += [(d, bi, "d1", p, 4) for p in range(4)]
            if ng <= (5 if ctx.quick else 7):
                specs += [(d, bi, "all", p, 16) for p in range(16)]
            if ctx.quick:
                if ng <= 12:
                    specs += [(d, bi, "d2", p, 8) for p in range(8)]
            else:
                specs += [(d, bi, "d2", p, 32) for p in range(32)]
    ctx.pmap(shard_base, specs, into=acc)
    files = corpus()
    cspecs = []
    sepset = ["\n", "/* c */", "", " # c\n"] if ctx.quick else ["\n", "\t", "\r\n", "/* c */", "", " # c\n", "\f", " /* = */\n"]
    for fname, text in files:
        if ctx.quick and len(text) > 1200:
            continue
        ntok = len(scan(text) or [])
        for lo in range(0, max(ntok, 1), 60):
            cspecs.append((fname, text, lo, lo + 60, sepset))
    ctx.pmap(shard_corpus, cspecs, into=acc)
    triples = acc.sets["triples"]
    cov = {
        "evaluations": acc.n, "distinct_nontrivial": acc.nontrivial,
        "rule": "%d generated bases (%s tokens) x 5 dialects (+ the ISIS grammar given together with a separately built OmniDecoder): all 1-gap deviations over %d separators (white-space "
                "kinds, runs, bare and padded comments, comment containing '= , (' and END, '#' comments for "
                "ISIS/default), all 2-gap deviations over a %d-separator core%s, full product over 5 separators "
                "for bases with <= 7 gaps; empty separator only where white space is optional; corpus: %d files "
                "whose trivial re-tokenisation was validated, every single-gap deviation over %d separators "
                "(default loader); distinct_nontrivial = layouts that loaded to the reference tree"
                % (len(B), "/".join(str(len(b)) for b in B), len(WS) + len(COMMENTS) + len(HASH) + 1, len(CORE) + 1,
                   " (bases with <= 12 gaps)" if ctx.quick else "", acc.extra["corpus_used"], len(sepset)),
        "triples_covered": len(triples),
        "triples": sorted("%s[%s]%s" % t for t in triples)[:400],
        "corpus_files_used": acc.extra["corpus_used"], "corpus_shards_skipped": acc.extra["corpus_skipped"],
        "outcome_histogram": dict(acc.outcomes),
        "samples": acc.samples[:6], "exhaustive": True,
    }
    return {"coverage": cov, "violations": acc.violations, "violations_total": acc.vio_total,
            "assumptions": ["white space is optional only around '=', ',', brackets, ';', before units and at the ends "
                            "of the text (the property's list); elsewhere a non-empty separator is kept",
                            "a bare comment is not placed against a token that starts/ends with '/' or '*'; separators "
                            "that create '-' + line end are excluded for ISIS/default (continuation syntax)",
                            "labels with missing values are bases for the permissive configurations only (the strict "
                            "ones reject them, C08)"]}


def replay(case):
    acc = Acc()
    d = case["dialect"]
    if "file" in case:
        for fname, text in corpus():
            if fname == case["file"]:
                a = shard_corpus((fname, text, case["gap"], case["gap"] + 1, [case["sep"]]))
                return a.violations
        return []
    seq = bases()[case["base"]]
    seps = {int(k): v for k, v in case["seps"].items()}
    judge(acc, d, seq, reference(seq, d, case["base"]), seps, {"base": case["base"]})
    return acc.violations


def candidates(case):
    if "seps" in case and len(case["seps"]) > 1:
        for k in list(case["seps"]):
            c = dict(case)
            c["seps"] = {kk: v for kk, v in case["seps"].items() if kk != k}
            yield c
