"""C13 - dumping is repeatable and does not damage its argument.

Engine E1 over modules: every container tree with <= N nodes over keys
{a,b} (leaves) / {g,a} (blocks; 'a' forces a block next to a same-named
assignment, and duplicate block names), plus special modules (data-location
pointer in a group, sets, quantities, plain dict input), for every encoder
configuration: deep concrete snapshot -> encode -> snapshot -> encode ->
snapshot.  Snapshots must be equal (only a PVLGroup that became a PVLObject
with identical contents is allowed, and only under the PDS3 encoder); both
calls must give the same text or the same refusal.
"""
import datetime as dt

from ..runner import Acc
from ..lib import container as C
from ..lib import gen, impl, vjson
from . import c16

LEVEL = "model_checking"

CONFIGS = [("PVL", {}), ("ODL", {}), ("PDS3", {}), ("ISIS", {}),
           ("PDS3", {"convert_group_to_object": False}),
           ("PVL", {"aggregation_end": False, "end_delimiter": False}),
           ("dumps", {}),                  # the convenience function pvl.dumps(m) itself
           ("dumps", {"indent": 4}),
           # the caller keeps one decoder object and hands it to several encoders
           ("ISIS", {"_decoder": "shared"}), ("PVL", {"_decoder": "shared"})]

SHARED_DECODER = {}


def shared_decoder():
    if "d" not in SHARED_DECODER:
        SHARED_DECODER["d"] = impl.OmniDecoder()
    return SHARED_DECODER["d"]


class DumpsRoute:
    """pvl.dumps(module, **kw) seen as an 'encoder' with an encode() method"""
    def __init__(self, kw):
        self.kw = kw

    def encode(self, m):
        import pvl
        return pvl.dumps(m, **self.kw)


def make(encname, cfg):
    if encname == "dumps":
        return DumpsRoute(cfg)
    if cfg.get("_decoder") == "shared":
        return _with_qcls(impl.make_encoder(encname, decoder=shared_decoder()))
    return _with_qcls(impl.make_encoder(encname, **cfg))


def _with_qcls(enc):
    # every encoder under test knows the two hand-made quantity classes (subclass registered first)
    enc.add_quantity_cls(SubQ, "km", "kmunits")
    enc.add_quantity_cls(BaseQ, "value", "units")
    return enc


def _unused(encname, cfg):
    return impl.make_encoder(encname, **cfg)


def other_dumps():
    """what else a process may do with pvl.dumps between two dumps of one module"""
    import pvl
    other = impl.PVLModule([("g", impl.PVLGroup([("a", 1)])), ("s", "x y")])
    for kw in ({"indent": 6}, {"width": 30}, {"convert_group_to_object": False}, {"tab_replace": 0},
               {"encoder": impl.ISISEncoder()}, {"grammar": impl.PVLGrammar()}, {"newline": "\n"},
               {"aggregation_end": False}, {"decoder": impl.OmniDecoder()}):
        try:
            pvl.dumps(other.copy(), **kw)
        except Exception:  # noqa: BLE001
            pass
        yield kw


def specials():
    G = lambda items: {"$": "group", "items": items}      # noqa: E731
    O = lambda items: {"$": "object", "items": items}     # noqa: E731
    enc = vjson.enc
    return [
        [["g", G([["^p", 5]])], ["g", G([["a", 1]])]],
        [["g", G([["a", 1]])], ["o", O([["b", 2]])], ["h", G([["c", 3]])]],
        [["o", O([["g", G([["a", 1]])], ["h", G([["g", G([["a", 1]])]])]])]],
        [["g", G([["^p", 5]])], ["h", G([["a", 1]])], ["g", 3]],
        [["g", G([["a", 1], ["a", 2]])], ["g", G([["a", 1]])], ["g", G([])]],
        [["a", 1], ["g", G([["g", G([["a", 1]])]])], ["g", G([["x", 1]])]],
        [["s", enc(frozenset([1, 2, 3]))], ["s", enc(frozenset(["a", "b"]))], ["g", G([["k", 1]])]],
        [["q", enc(impl.Quantity(1.5, "m"))], ["g", G([["q", enc(impl.Quantity(2, "m"))]])]],
        [["l", [3, [2, 9, 1], 1]], ["g", G([["l", [2, 1]]])], ["g", G([["l", ["b", "a"]]])]],
        [["s", enc(frozenset(["z", "a", "m"]))], ["l", ["z", "a", "m", "a"]], ["k", "  padded  "], ["g", G([["K", 1], ["k", 2]])]],
        [["g", G([["t", enc(dt.time(1, 2, tzinfo=dt.timezone.utc))]])], ["g", G([["n", None]])]],
        [["g", G([["o", O([["a", 1]])]])], ["g", G([["a", "x y"]])], ["g", G([["a", True]])]],
        [["a", "has a very long string " * 6], ["g", G([["b", "x"]])], ["g", G([["b", "y"]])]],
        [["bad key", 1], ["g", G([["a", 1]])], ["g", G([["b", 1]])]],       # ODL/PDS3 refuse
        [["g", G([["a", 1]])], ["g", G([["b", {"$": "tuple", "v": [1]}]])]],  # refusal half-way
        # strings that one dialect writes bare and another must quote
        [["s", "A+B"], ["t", "12:00-01"], ["u", ["LT+S", "x", "16#-7F#"]], ["g", G([["v", "C+D"], ["w", "a#b"]])]],
    ]


class BaseQ:
    """two hand-made quantity classes, one derived from the other, registered with different property names"""
    def __init__(self, value, units):
        self.value, self.units = value, units


class SubQ(BaseQ):
    def __init__(self, km, units="km"):           # add_quantity_cls() probes the class with cls(1, "m")
        BaseQ.__init__(self, km * 1000, "m")
        self.km, self.kmunits = km, "km"


class OneShot:
    """a one-shot iterable (like a generator or a map object) that shows how much of it was used up"""
    def __init__(self, items):
        self.items, self.taken = list(items), 0

    def __iter__(self):
        return self

    def __next__(self):
        if self.taken >= len(self.items):
            raise StopIteration
        self.taken += 1
        return self.items[self.taken - 1]


def snapshot(m):
    """(class, id, items) recursively; values by canonical form."""
    if isinstance(m, OneShot):
        return ("V", ("one-shot", id(m), m.taken))
    if isinstance(m, BaseQ):
        return ("V", (type(m).__name__, id(m), repr(sorted(vars(m).items()))))
    if isinstance(m, impl.OrderedMultiDict):
        inv = C.invariant(m)
        return ("C", type(m).__name__, id(m), inv,
                tuple((k, snapshot(v)) for k, v in C._items_of(m)))
    if type(m) is dict:
        return ("D", "dict", id(m), None, tuple((k, snapshot(v)) for k, v in m.items()))
    if isinstance(m, list):
        return ("L", id(m), tuple(snapshot(v) for v in m))
    return ("V", vjson.canon(m))


def compare(a, b, allow_conv, path="module"):
    """None when equal (modulo the permitted conversion), else a description."""
    if a[0] != b[0]:
        return "%s: node kind changed" % path
    if a[0] == "V":
        return None if a == b else "%s: value changed %r -> %r" % (path, a[1], b[1])
    if a[0] == "L":
        if len(a[2]) != len(b[2]):
            return "%s: list length changed" % path
        for i, (x, y) in enumerate(zip(a[2], b[2])):
            r = compare(x, y, allow_conv, "%s[%d]" % (path, i))
            if r:
                return r
        return None if a[1] == b[1] else "%s: list object replaced" % path
    if b[3]:
        return "%s: container left inconsistent: %s" % (path, b[3])
    converted = False
    if a[1] != b[1]:
        if allow_conv and a[1] == "PVLGroup" and b[1] == "PVLObject":
            converted = True
        else:
            return "%s: container class changed %s -> %s" % (path, a[1], b[1])
    if a[2] != b[2] and not converted:
        return "%s: container object replaced" % path
    ka, kb = [k for k, _ in a[4]], [k for k, _ in b[4]]
    if ka != kb:
        return "%s: items changed: keys %r -> %r" % (path, ka, kb)
    for (k, x), (_, y) in zip(a[4], b[4]):
        r = compare(x, y, allow_conv, path + "." + str(k))
        if r:
            return r
    return None


def build(items, as_dict):
    if items == "ITER":
        # hand-built values that can be walked only once: an encoder that accepts them must not use them up
        return impl.PVLModule([("s", OneShot([1, 4, 9])), ("g", impl.PVLGroup([("t", OneShot(["a", "b"]))])),
                               ("k", 1)])
    if items == "QCLS":
        # values of two registered quantity classes, the subclass first
        return impl.PVLModule([("range", SubQ(2)), ("dist", BaseQ(7, "m")), ("g", impl.PVLGroup([("r", SubQ(3))]))])
    if items == "INTKEY":
        # a key that is not a str, put there with insert(); groups only, so that PDS3 rebuilds the module
        m = impl.PVLModule([("g", impl.PVLGroup([("a", 1)])), ("h", impl.PVLGroup([("b", 2)])), ("z", 9)])
        m.insert(1, 5, "five")
        return m
    if items == "LENGTH":
        # a float subclass that would be written as a quantity only if another
        # encoder's add_quantity_cls() registration leaked
        return impl.PVLModule([("h", c16.Length(3.5, "m")),
                               ("g", impl.PVLGroup([("d", c16.Length(7.25, "km"))]))])
    if as_dict:
        return {k: vjson.dec(v) for k, v in items}
    return gen.module(items)


def call(enc, m):
    try:
        return ("ok", enc.encode(m))
    except (ValueError, TypeError) as e:
        return ("refused", type(e).__name__)
    except Exception as e:  # noqa: BLE001
        return ("raised", type(e).__name__, str(e)[:200])


def check_case(case):
    items, encname, cfg, as_dict = case["items"], case["enc"], case["cfg"], case.get("dict", False)
    m = build(items, as_dict)
    enc = make(encname, cfg)
    allow = encname in ("PDS3", "dumps")
    s0 = snapshot(m)
    r1 = call(enc, m)
    s1 = snapshot(m)
    out = []
    d = compare(s0, s1, allow)
    if d:
        out.append({"case": case, "diagnosis": "argument-changed-by-dump:" + encname, "detail": d})
        return out
    if r1[0] == "raised":
        return out      # not this property's business (C01/C12 judge refusals' types)
    # anything may happen elsewhere in the process between two dumps of the same
    # object: other encoder/parser/decoder instances are created, configured
    # (add_quantity_cls) and used
    if case.get("interfere"):
        c16.interfere()
        for other_name in impl.ENCODERS:
            # the other dialects' encoders write the same values (an equal module made of new objects)
            try:
                impl.make_encoder(other_name).encode(build(items, as_dict))
            except Exception:  # noqa: BLE001
                pass
            if cfg.get("_decoder") == "shared":
                import pvl
                try:
                    impl.make_encoder(other_name, decoder=shared_decoder())
                    pvl.dumps(impl.PVLModule([("a", 1)]), decoder=shared_decoder())
                except Exception:  # noqa: BLE001
                    pass
            rk = call(enc, m)
            if rk != r1:
                out.append({"case": case, "diagnosis": "dump-not-repeatable-after-other-use:" + encname,
                            "detail": "after the %s encoder wrote an equal module%s: first %r now %r"
                                      % (other_name, " and was built around the same decoder object"
                                         if cfg.get("_decoder") == "shared" else "", str(r1)[:160], str(rk)[:160])})
                return out
        for kw in other_dumps():
            # after each single other call: which call came last decides what a shared slot holds
            rk = call(enc, m)
            if rk != r1:
                out.append({"case": case, "diagnosis": "dump-not-repeatable-after-other-use:" + encname,
                            "detail": "after pvl.dumps(other, %s): first %r now %r"
                                      % (", ".join(sorted(kw)), str(r1)[:160], str(rk)[:160])})
                return out
        # ... and the same encoder instance is used for other modules in between, some of which it
        # refuses; after each of them the module under test must still be written the same way
        for mi, mk in enumerate(c16.modules()):
            try:
                enc.encode(mk())
            except Exception:  # noqa: BLE001
                pass
            rk = call(enc, m)
            if rk != r1:
                out.append({"case": case, "diagnosis": "dump-not-repeatable-after-other-use:" + encname,
                            "detail": "after the same encoder handled module #%d: first %r now %r"
                                      % (mi, str(r1)[:160], str(rk)[:160])})
                return out
    r2 = call(enc, m)
    s2 = snapshot(m)
    d = compare(s1, s2, allow)
    if d:
        out.append({"case": case, "diagnosis": "argument-changed-by-second-dump:" + encname, "detail": d})
        return out
    if r1 != r2:
        out.append({"case": case, "diagnosis": "dump-not-repeatable:" + encname,
                    "detail": "first %r second %r" % (str(r1)[:200], str(r2)[:200])})
        return out
    # a fresh encoder on the (possibly converted) object gives the same text as well
    r3 = call(make(encname, cfg), m)
    if r3 != r1:
        out.append({"case": case, "diagnosis": "dump-not-repeatable-fresh-encoder:" + encname,
                    "detail": "first %r third %r" % (str(r1)[:200], str(r3)[:200])})
    return out


def shard(spec):
    acc = Acc()
    hermetic = isinstance(spec, tuple) and spec[0] == "hermetic"
    if hermetic:
        spec = [spec[1]]
    for items, as_dict in spec:
        acc.states += 1
        for encname, cfg in CONFIGS:
            case = {"items": items, "enc": encname, "cfg": cfg, "dict": as_dict}
            if hermetic:
                case["interfere"] = True
            vs = check_case(case)
            acc.n += 1
            acc.transitions += 2
            if vs:
                acc.outcomes["violation"] += 1
                v = vs[0]
                acc.violation(v["case"], v["diagnosis"], v["detail"],
                              sig=v["diagnosis"] + "|" + v["detail"].split(":")[-1][:60])
            else:
                acc.nontrivial += 1
                acc.outcomes[encname] += 1
        acc.sample({"items": items, "dict": as_dict}, cap=1)
    return acc


def run(ctx):
    n_max = 3 if ctx.quick else 5
    mods = []
    for n in range(0, n_max + 1):
        for f in gen.forests(n, ["a", "b"], ["g", "a"], [1]):
            mods.append((f, False))
    if ctx.quick:
        # the four-node trees made of blocks only (where key collisions between blocks live)
        for f in gen.forests(4, [], ["g", "a"], [1]):
            mods.append((f, False))
    for s in specials():
        mods.append((s, False))
    mods.append(("LENGTH", False))
    mods.append(("ITER", False))
    mods.append(("QCLS", False))
    mods.append(("INTKEY", False))
    for f in gen.forests(2, ["a"], ["g"], [1]):
        mods.append((f, True))           # plain dict input (unique keys only)
    mods = [m for m in mods if not (m[1] and len({k for k, _ in m[0]}) != len(m[0]))]
    if ctx.quick:
        mods = [m for m in mods]
    specs = [mods[i::64] for i in range(64) if mods[i::64]]
    acc = ctx.pmap(shard, specs)
    # hermetic cases: one fresh process each, with unrelated activity on other
    # instances (construction, add_quantity_cls, dumps, loads) between the two dumps
    import multiprocessing
    herm = [("hermetic", (s, False)) for s in specials()] + [("hermetic", ("LENGTH", False)), ("hermetic", ("ITER", False)), ("hermetic", ("QCLS", False)),
                                                             ("hermetic", ("INTKEY", False))]
    with multiprocessing.get_context("fork").Pool(16, maxtasksperchild=1) as pool:
        for r in pool.imap_unordered(shard, herm):
            acc.merge(r)
            if __import__('mc.runner').runner.enough(acc):
                break
    cov = {
        "evaluations": acc.n, "distinct_nontrivial": acc.nontrivial,
        "states": acc.states, "transitions": acc.transitions,
        "traces_validated_against_impl": acc.n,
        "rule": "states = all container trees with <= %d nodes over leaf keys {a,b}, block keys {g,a}, "
                "group/object at every block (%d modules incl. %d special ones and plain-dict inputs); "
                "transitions = encode, encode again, for %d encoder configurations (incl. the convenience function pvl.dumps with and without options; hermetic cases re-dump after each of nine other pvl.dumps calls and after every other use of the same encoder); oracle = deep "
                "snapshot (classes, identities, item lists, dict storage) before/after; non-trivial = "
                "both calls completed and all three snapshots were compared"
                % (n_max, len(mods), len(specials()), len(CONFIGS)),
        "encoder_histogram": dict(acc.outcomes),
        "samples": acc.samples[:6], "exhaustive": True,
    }
    return {"coverage": cov, "violations": acc.violations, "violations_total": acc.vio_total,
            "assumptions": ["leaf value 1 stands for any scalar (special modules add sets, quantities, "
                            "times, long strings)",
                            "the PDS3 encoder may replace a PVLGroup by a PVLObject with identical "
                            "contents in the caller's module (documented), nothing else"]}


def replay(case):
    if case.get("interfere"):
        import multiprocessing
        with multiprocessing.get_context("fork").Pool(1, maxtasksperchild=1) as pool:
            return pool.apply(check_case, (case,))
    return check_case(case)


def candidates(case):
    items = case["items"]
    if not isinstance(items, list):
        return

    def drop(its):
        for i in range(len(its)):
            yield its[:i] + its[i + 1:]
        for i, (k, v) in enumerate(its):
            if isinstance(v, dict) and v.get("$") in ("group", "object"):
                for sub in drop(v["items"]):
                    yield its[:i] + [[k, {"$": v["$"], "items": sub}]] + its[i + 1:]
    for its in drop(items):
        c = dict(case); c["items"] = its
        yield c
