"""C12 - encoder output obeys the surface rules of its dialect.

Engine E5 (module and configuration generator shared with C01), oracle R5
(mc/lib/surface.py) - deliberately NOT a round trip: an independent line-level
reader of the text that checks exactly the rules the property lists
(character set, line ends, upper-case identifier names <= 30 characters,
statement delimiters, block keywords per dialect, units only after numbers,
one-line symbol strings, no tabs in PDS3, final END line (+ line end for
ODL/PDS3), every statement on its own line at indent x level, '=' aligned among
one-line siblings, matching end statements with the block name when
configured).  It is module-directed, so every item must be found as a
statement, in order.
"""
from ..runner import Acc
from ..lib import gen, impl, modgen, surface
from . import c01

LEVEL = "exploration"


def check_case(case):
    items, encname, cfg = case["items"], case["enc"], case["cfg"]
    out = []
    try:
        m = gen.module(items)
    except Exception:  # noqa: BLE001
        return out, "unbuildable"
    for prior_enc, prior_cfg in case.get("prior", []):
        # replays only: what this process had encoded before (state shared between encoder classes)
        try:
            impl.make_encoder(prior_enc, **{k: v for k, v in prior_cfg.items() if v is not None}).encode(
                gen.module(items))
        except Exception:  # noqa: BLE001
            pass
    try:
        enc = impl.make_encoder(encname, **{k: v for k, v in cfg.items() if v is not None})
        text = enc.encode(m)
    except (ValueError, TypeError):
        return out, "refused"
    except Exception as e:  # noqa: BLE001
        return out, "raised(C01)"
    try:
        surface.check(text, m, encname, cfg)
    except surface.Bad as b:
        out.append({"case": case, "diagnosis": "surface-rule:%s:%s" % (b.rule, encname),
                    "detail": "%s | text %r" % (b.detail, text[:260])})
        return out, "violation"
    return out, "conforms"


def shard(spec):
    mods, combos = spec
    acc = Acc()
    for name, items in mods:
        for ci, (encname, cfg) in enumerate(combos):
            case = {"items": items, "enc": encname, "cfg": cfg, "shape": name}
            vs, status = check_case(case)
            if vs and ci and len(combos) <= 4:
                for v in vs:
                    v["case"] = dict(v["case"], prior=[[e, c] for e, c in combos[:ci]])
            acc.n += 1
            acc.outcomes[status] += 1
            if vs:
                v = vs[0]
                acc.violation(v["case"], v["diagnosis"], v["detail"],
                              sig="%s|%s|%s" % (v["diagnosis"], name, c01.value_tag(items)))
            elif status == "conforms":
                acc.nontrivial += 1
    if mods:
        acc.sample({"shape": mods[0][0], "items": mods[0][1]}, cap=1)
    return acc


def run(ctx):
    mods = list(modgen.modules(ctx.tier))
    default = [(e, {}) for e in impl.ENCODERS]
    dev1 = [(e, c) for e in impl.ENCODERS for c in modgen.configs(e, 1) if c]
    dev2 = [(e, c) for e in impl.ENCODERS for c in modgen.configs(e, 2) if len(c) == 2]
    specs = [(mods[i:i + 40], default) for i in range(0, len(mods), 40)]
    specs += [(mods[i:i + 40], list(reversed(default))) for i in range(0, len(mods), 40)]
    sel = mods[::4] if ctx.quick else mods
    specs += [(sel[i:i + 12], dev1) for i in range(0, len(sel), 12)]
    core = [m for m in mods if m[0] in ("top", "wrap", "wrap-in-group", "tree", "tree-long", "in-object-group")]
    sel2 = core[::30] if ctx.quick else core[::5]
    specs += [(sel2[i:i + 3], dev2) for i in range(0, len(sel2), 3)]
    import multiprocessing
    import random
    random.Random(ctx.seed).shuffle(specs)
    acc = Acc()
    with multiprocessing.get_context("fork").Pool(16, maxtasksperchild=1) as pool:     # one fresh process per shard
        for r in pool.imap_unordered(shard, specs):
            acc.merge(r)
            if __import__('mc.runner').runner.enough(acc):
                break
    cov = {
        "evaluations": acc.n, "distinct_nontrivial": acc.nontrivial,
        "rule": "%d modules (C01's generator) x 4 encoders at defaults in both encoder orders, one fresh process per shard; x %d single-option deviations on %s; x %d "
                "two-option deviations on a core; each returned text read by the independent surface reader R5; "
                "non-trivial = the encoder returned text and every listed rule was evaluated on it"
                % (len(mods), len(dev1), "every 4th module" if ctx.quick else "all modules", len(dev2)),
        "outcome_histogram": dict(acc.outcomes),
        "samples": acc.samples[:6], "exhaustive": True,
    }
    return {"coverage": cov, "violations": acc.violations, "violations_total": acc.vio_total,
            "assumptions": ["line breaks inside a quoted text string are content, not line ends",
                            "'fits on one line' is read in the encoder's favour: a one-line statement is exempt from "
                            "the alignment rule when padding its name to its siblings' column would push it past the "
                            "width",
                            "for PDS3 the GROUP/OBJECT keyword of a block is not compared with the container class "
                            "(groups may legitimately be written as objects)"]}


def replay(case):
    return check_case(case)[0]


candidates = c01.candidates
