"""C09 - file, stream and string entry points agree; nothing after END matters.

Stream fault enumerator (the crash-point enumerator's analogue for a reader):
labels x separator after END x trailing bytes (none, undecodable at every
offset around every chunk boundary, NULs, valid multi-byte UTF-8, a truncated
multi-byte sequence, a second label, open comment / quote, a long unbroken
ASCII run) x entry point (str path, Path, file: URL via loadu, text stream,
binary stream, BytesIO, raw stream with short reads, str, bytes) x stream
chunk size.  Oracles: every entry returns the module of the label alone; a
counting lexer (public lexer_fn) shows that the last token the parser asked
for is the END statement; dump() to a path / text stream / binary stream /
BytesIO / StringIO writes exactly what dumps() returns and reports its length.
"""
import io
import os
import pathlib
import shutil
import tempfile

from ..runner import Acc
from ..lib import impl, tokens as T

LEVEL = "fault_enumeration"

def _labels():
    import datetime as dt
    G, O, Q = impl.PVLGroup, impl.PVLObject, impl.Quantity
    utc = dt.timezone.utc
    return [
        ("a = 1\nEND", [("a", 1)]),
        ("a = 1\nGROUP = g\n  b = 'x y'\nEND_GROUP\nEND", [("a", 1), ("g", G([("b", "x y")]))]),
        ("OBJECT = o\n  k = (1, 2, 3)\n  t = 2001-01-01T12:00:00\nEND_OBJECT = o\nq = 1.5 <m>\nEND",
         [("o", O([("k", [1, 2, 3]), ("t", dt.datetime(2001, 1, 1, 12, 0, tzinfo=utc))])), ("q", Q(1.5, "m"))]),
        ("s = \"multi\nline\"\nn = NULL\nEnd", [("s", "multi line"), ("n", None)]),
        ("/* header */\nx = {a, b}\nptr = ^y\nEND", [("x", frozenset(["a", "b"])), ("ptr", "^y")]),
        ("a = \"caf\u00e9 \u4e2d\"\nb = 2\nEND", [("a", "caf\u00e9 \u4e2d"), ("b", 2)]),
        # a line that reads END without being the End Statement
        ("s = \"first\nEND\nlast\"\n/* not the\nEND\n*/\nn = 1\nEND", [("s", "first END last"), ("n", 1)]),
        # CR-LF line ends, dash continuation outside and inside quotes
        ("a = 12-\r\n34\r\nb = abc-\r\n   def\r\nc = \"x-\r\n  y\"\r\nEND", [("a", 1234), ("b", "abcdef"), ("c", "xy")]),
        ("a = 1\r\nGROUP = g\r\n  b = 2\r\nEND_GROUP\r\nEND", [("a", 1), ("g", G([("b", 2)]))]),
        # a file that starts with a byte order mark: U+FEFF is a character like any other for the default
        # grammar, whichever way the data comes in
        ("\ufeffa = 1\nb = 2\nEND", [("\ufeffa", 1), ("b", 2)]),
    ]


LABELS = [t for t, _ in _labels()]

SEPS = ["\n", "\r\n", " ", ";", "\x00", "\n\n", ";\n"]
CHUNKS = [1, 2, 7, 64, 8192]
CHUNKS_THOROUGH = [1, 2, 3, 4, 5, 7, 8, 9, 15, 16, 17, 63, 64, 65, 4095, 4096, 4097, 8191, 8192, 8193]


def tails(label_len, quick):
    out = [("none", b"")]
    ks = {0, 1, 2, 5}
    if not quick:
        ks |= set(range(0, 140))
    for c in (7, 64, 8192) if quick else (7, 16, 64, 4096, 8192):
        for d in (-2, -1, 0, 1, 2) if quick else range(-5, 6):
            k = c - (label_len % c) + d
            if 0 <= k < 9000:
                ks.add(k)
            ks.add(max(0, c - label_len + d)) if c - label_len + d < 9000 else None
    if quick:
        ks = {k for k in ks if k < 200} | {max(0, 8192 - label_len - 1), max(0, 8192 - label_len + 1)}
    for k in sorted(ks):
        out.append(("bad@%d" % k, b"x" * k + b"\xff\xfe\x00\x01junk"))
    out += [("nuls", b"\x00" * 50), ("utf8", "éü€ valid utf8 中".encode("utf-8")),
            ("truncated-multibyte", b"ab\xe2\x82"), ("bad-then-text", b"a\xe2\x82\xacb\xffzz = 1\nEND\n"),
            ("second-label", b"x = 5\nEND\n"), ("garbage-syntax", b"= = = ((( {"),
            ("open-quote", b'"unterminated'), ("open-comment", b"/* open comment"),
            ("continuation-byte-first", b"\x80abc")]
    # runs of multi-byte characters that cross the 8 KiB buffer boundaries at every alignment,
    # followed by an undecodable byte
    for ch in ("\u00e9", "\u4e2d", "\U0001F600"):
        for pad in range(len(ch.encode("utf-8")) + 1):
            n = 18000 // len(ch.encode("utf-8"))
            out.append(("multibyte-run-%d-pad%d" % (len(ch.encode("utf-8")), pad),
                        b"x" * pad + (ch * n).encode("utf-8") + b"\xff\xfejunk"))
    if not quick:
        out.append(("long-ascii-run", b"abc" * 40000))
    else:
        out.append(("long-ascii-run", b"abc" * 4000))
    return out


class ShortReads(io.RawIOBase):
    """raw stream that never returns more than k bytes per read"""

    def __init__(self, data, k):
        self.data, self.k, self.pos = data, k, 0

    def readable(self):
        return True

    def seekable(self):
        return True

    def tell(self):
        return self.pos

    def seek(self, off, whence=0):
        self.pos = off if whence == 0 else (self.pos + off if whence == 1 else len(self.data) + off)
        return self.pos

    def readinto(self, b):
        n = min(len(b), self.k, len(self.data) - self.pos)
        b[:n] = self.data[self.pos:self.pos + n]
        self.pos += n
        return n


def entries(data, tmpdir, chunk):
    """yields (name, thunk(**kw) -> module)"""
    import pvl
    p = os.path.join(tmpdir, "f.lbl")
    with open(p, "wb") as f:
        f.write(data)
    yield "str-path", lambda **kw: pvl.load(p, **kw)
    yield "Path", lambda **kw: pvl.load(pathlib.Path(p), **kw)
    yield "file-url", lambda **kw: pvl.loadu("file://" + p, **kw)

    def text_stream(**kw):
        with open(p, "r", encoding="utf-8", newline="") as f:
            f._CHUNK_SIZE = chunk
            return pvl.load(f, **kw)
    yield "text-stream", text_stream

    def bin_stream(**kw):
        with open(p, "rb", buffering=max(chunk, 2)) as f:
            return pvl.load(f, **kw)
    yield "binary-stream", bin_stream
    yield "BytesIO", lambda **kw: pvl.load(io.BytesIO(data), **kw)

    def short(**kw):
        return pvl.load(io.BufferedReader(ShortReads(data, chunk), buffer_size=max(chunk, 2)), **kw)
    yield "short-read-stream", short

    def short_text(**kw):
        f = io.TextIOWrapper(io.BufferedReader(ShortReads(data, chunk), buffer_size=max(chunk, 2)),
                             encoding="utf-8", newline="")
        f._CHUNK_SIZE = chunk
        return pvl.load(f, **kw)
    yield "short-read-text-stream", short_text
    yield "bytes", lambda **kw: pvl.loads(data, **kw)
    try:
        text = data.decode("utf-8")
        yield "str", lambda **kw: pvl.loads(text, **kw)
        yield "StringIO", lambda **kw: pvl.load(io.StringIO(text), **kw)
    except UnicodeDecodeError:
        pass


# ------------------------------------------------------------------ variants: names, path kinds, keyword arguments

FILE_NAMES = ["f.lbl", "mars orbiter 0042.img", "a#b%20c.lbl", "caf\u00e9 \u4e2d.lbl", "frame[2].lbl", "q?x=1&y.lbl",
              "dir with space/sub#dir/f.lbl"]
VARIANT_LABEL = ("SCALE = 0.10\nn = 7\nGROUP = g\n  r = (1.50, 2 <m>)\n  OBJECT = o\n    x = 1.0E3\n  END_OBJECT\n"
                 "END_GROUP\ns = {0.5}\nEND\n")


class FsPath:
    """an os.PathLike that is not a pathlib class"""
    def __init__(self, p):
        self.p = p

    def __fspath__(self):
        return self.p


def kwarg_sets():
    from decimal import Decimal

    class M(impl.PVLModule):
        pass

    class G(impl.PVLGroup):
        pass

    class O(impl.PVLObject):
        pass
    return [
        ("none", lambda: {}),
        ("decimal-decoder", lambda: {"decoder": impl.OmniDecoder(real_cls=Decimal)}),
        ("container-classes", lambda: {"module_class": M, "group_class": G, "object_class": O}),
        ("pvl-grammar-and-decoder", lambda: {"grammar": impl.PVLGrammar(), "decoder": impl.PVLDecoder(real_cls=Decimal)}),
        ("explicit-parser", lambda: {"parser": impl.PVLParser(module_class=M, group_class=G, object_class=O,
                                                             decoder=impl.PVLDecoder(real_cls=Decimal))}),
    ]


def typed(v):
    """canonical form that keeps the class of every node"""
    if isinstance(v, impl.OrderedMultiDict):
        return (type(v).__name__, tuple((k, typed(x)) for k, x in v))
    if isinstance(v, impl.Quantity):
        return ("Quantity", typed(v.value), v.units)
    if isinstance(v, list):
        return ("list", tuple(typed(x) for x in v))
    if isinstance(v, (set, frozenset)):
        return (type(v).__name__, tuple(sorted(repr(typed(x)) for x in v)))
    return (type(v).__name__, str(v))


def path_entries(p, data):
    """every way of naming a file (and, for reference, the text itself)"""
    import pvl
    yield "str", lambda **kw: pvl.loads(data.decode("utf-8"), **kw)
    yield "bytes", lambda **kw: pvl.loads(data, **kw)
    yield "str-path", lambda **kw: pvl.load(p, **kw)
    yield "Path", lambda **kw: pvl.load(pathlib.Path(p), **kw)
    yield "PurePath-as-fspath-object", lambda **kw: pvl.load(FsPath(p), **kw)

    def direntry(**kw):
        with os.scandir(os.path.dirname(p)) as it:
            for e in it:
                if e.name == os.path.basename(p):
                    return pvl.load(e, **kw)
        raise AssertionError("file not found by scandir")
    yield "os.DirEntry", direntry
    yield "file-url(as_uri)", lambda **kw: pvl.loadu(pathlib.Path(p).as_uri(), **kw)
    yield "file-url(localhost)", lambda **kw: pvl.loadu(pathlib.Path(p).as_uri().replace("file:///", "file://localhost/"), **kw)

    def bin_stream(**kw):
        with open(p, "rb") as f:
            return pvl.load(f, **kw)
    yield "binary-stream", bin_stream

    def text_stream(**kw):
        with open(p, "r", encoding="utf-8", newline="") as f:
            return pvl.load(f, **kw)
    yield "text-stream", text_stream
    yield "BytesIO", lambda **kw: pvl.load(io.BytesIO(data), **kw)
    yield "StringIO", lambda **kw: pvl.load(io.StringIO(data.decode("utf-8")), **kw)
    # streams the caller has positioned behind a header (a label that is not at the start of the file)
    header = b"HEADER OF 32 BYTES /* = ( \" */ ;\n"
    hp = p + ".withheader"
    with open(hp, "wb") as f:
        f.write(header + data)

    def bin_at(**kw):
        with open(hp, "rb") as f:
            f.seek(len(header))
            return pvl.load(f, **kw)
    yield "binary-stream-at-offset", bin_at

    def bin_after_read(**kw):
        with open(hp, "rb") as f:
            f.read(len(header))
            return pvl.load(f, **kw)
    yield "binary-stream-after-read", bin_after_read

    def bytesio_at(**kw):
        b = io.BytesIO(header + data)
        b.seek(len(header))
        return pvl.load(b, **kw)
    yield "BytesIO-at-offset", bytesio_at

    def text_at(**kw):
        with open(hp, "r", encoding="utf-8", newline="") as f:
            f.read(len(header))
            return pvl.load(f, **kw)
    yield "text-stream-after-read", text_at


def check_variant(fname, kwname, tailname, acc, tmpdir):
    data = VARIANT_LABEL.encode("utf-8") + {
        "none": b"", "binary": b"\xff\xfe\x00\x01junk" * 20,
        # decodes as UTF-8, but is outside the character set of every strict grammar
        "utf8-outside-charset": b"\x00\x00\x01\x7f" + "\u00e9\u4e2d\x85".encode("utf-8") * 30}[tailname]
    p = os.path.join(tmpdir, fname)
    os.makedirs(os.path.dirname(p), exist_ok=True)
    with open(p, "wb") as f:
        f.write(data)
    mk = dict(kwarg_sets())[kwname]
    ref = None
    for name, thunk in path_entries(p, data):
        if name in ("str", "StringIO", "text-stream", "text-stream-after-read") and tailname == "binary":
            continue                       # a str cannot hold the binary tail
        case = {"kind": "variant", "file_name": fname, "kwargs": kwname, "tail": tailname, "entry": name}
        acc.n += 1
        try:
            got = typed(thunk(**mk()))
        except Exception as e:  # noqa: BLE001
            acc.outcomes["violation"] += 1
            acc.violation(case, "entry-point-raises:" + name, "%s: %s" % (type(e).__name__, str(e)[:150]),
                          sig="variant-raises|%s|%s|%s" % (name, kwname, type(e).__name__))
            continue
        if ref is None:
            ref = (name, got)              # the first entry that works; all others must agree with it
            acc.nontrivial += 1
            continue
        if got != ref[1]:
            acc.outcomes["violation"] += 1
            acc.violation(case, "entry-points-disagree:" + name,
                          "with keyword arguments %s: %s gives %r, %s gives %r" % (kwname, ref[0], ref[1], name, got),
                          sig="variant-differs|%s|%s" % (name, kwname))
            continue
        acc.nontrivial += 1
        acc.outcomes["variant-ok:" + name] += 1
    # absolute expectation next to the differential one: what the keyword arguments ask for
    if ref is not None:
        flat = repr(ref[1])
        want = {"none": ["'float'", "PVLGroup"], "decimal-decoder": ["'Decimal', '0.10'", "'Decimal', '1.50'"],
                "container-classes": ["('M'", "('G'", "('O'"], "pvl-grammar-and-decoder": ["'Decimal', '1.0E+3'", "'Decimal', '0.10'"],
                "explicit-parser": ["('M'", "('G'", "'Decimal', '0.10'"]}[kwname]
        for w in want:
            if w not in flat:
                acc.violation({"kind": "variant", "file_name": fname, "kwargs": kwname, "tail": tailname, "entry": ref[0]},
                              "keyword-arguments-not-applied:" + ref[0], "expected %s in %s" % (w, flat[:300]),
                              sig="variant-kwargs|%s|%s" % (ref[0], kwname))


def shard_variants(spec):
    fname, kwname = spec
    acc = Acc()
    tmpdir = tempfile.mkdtemp(prefix="c09v_")
    try:
        for tailname in ("none", "binary", "utf8-outside-charset"):
            check_variant(fname, kwname, tailname, acc, tmpdir)
    finally:
        shutil.rmtree(tmpdir, ignore_errors=True)
    acc.sample({"file_name": fname, "kwargs": kwname}, cap=1)
    return acc


# ------------------------------------------------------------------ a label larger than any buffer or window

def big_label():
    lines = ['k%04d = "%s"' % (i, "x" * 66) for i in range(3800)]       # ~300 KiB before END
    text = "\n".join(lines) + "\nlast = 1\nEND\n"
    items = [("k%04d" % i, "x" * 66) for i in range(3800)] + [("last", 1)]
    return text, items


def shard_big(spec):
    """one entry point per shard (each load takes a second): the label of ~300 KiB, with and without an
    undecodable tail, must come back whole through every entry point"""
    entry_name, tailname = spec
    acc = Acc()
    text, items = big_label()
    want = T.loose(impl.PVLModule(items))
    tail = {"none": b"", "binary": b"\xff\xfe\x00\x01" * 500}[tailname]
    data = text.encode("utf-8") + tail
    tmpdir = tempfile.mkdtemp(prefix="c09b_")
    try:
        for name, thunk in entries(data, tmpdir, 8192):
            if name != entry_name:
                continue
            case = {"kind": "big", "entry": name, "tail": tailname}
            acc.n += 1
            try:
                got = T.loose(thunk())
            except Exception as e:  # noqa: BLE001
                acc.violation(case, "entry-point-raises:" + name, "%s: %s" % (type(e).__name__, str(e)[:150]),
                              sig="big-raises|%s|%s" % (name, tailname))
                continue
            if got != want:
                acc.violation(case, "entry-points-disagree:" + name,
                              "a label of %d bytes came back with %d of %d statements"
                              % (len(text), len(got) - 1, len(items)), sig="big-differs|%s|%s" % (name, tailname))
                continue
            acc.nontrivial += 1
            acc.outcomes["big-ok:" + name] += 1
    finally:
        shutil.rmtree(tmpdir, ignore_errors=True)
    return acc


BIG_ENTRIES = ["str-path", "Path", "file-url", "text-stream", "binary-stream", "BytesIO", "short-read-stream",
               "short-read-text-stream", "bytes", "str", "StringIO"]


def check_load(label, sep, tailname, tail, chunk, tmpdir, acc):
    import pvl
    items = dict(_labels())[label]
    want = T.loose(impl.PVLModule(items))       # fixed by the generator, not by any entry point
    data = label.encode("utf-8") + sep.encode("utf-8") + tail
    for name, thunk in entries(data, tmpdir, chunk):
        if name in ("str-path", "Path", "file-url", "BytesIO", "bytes", "str", "StringIO") and chunk != CHUNKS[0]:
            continue          # chunking does not apply to these entries
        case = {"kind": "load", "label": label, "sep": sep, "tail": tailname, "tail_hex": tail[:40].hex(),
                "tail_len": len(tail), "chunk": chunk, "entry": name}
        acc.n += 1
        f = impl.LexerFactory(factor=1000, keep_log=True)
        try:
            m = thunk(lexer_fn=f)
        except Exception as e:  # noqa: BLE001
            acc.outcomes["violation"] += 1
            acc.violation(case, "entry-point-raises:" + name, "%s: %s" % (type(e).__name__, str(e)[:150]),
                          sig="raises|%s|%s|%s" % (name, type(e).__name__, tailname.split("@")[0]))
            continue
        got = T.loose(m)
        if got != want:
            acc.outcomes["violation"] += 1
            acc.violation(case, "entry-points-disagree:" + name,
                          "expected the label's module %r, got %r" % (want, got),
                          sig="differs|%s|%s" % (name, tailname.split("@")[0]))
            continue
        log = f.last.log if f.last is not None else []
        if not log or not log[-1].is_end_statement():
            acc.outcomes["violation"] += 1
            acc.violation(case, "token-requested-beyond-END:" + name,
                          "tokens handed out: ...%r" % ([str(t) for t in log[-4:]],),
                          sig="beyond-end|%s|%s" % (name, tailname.split("@")[0]))
            continue
        acc.nontrivial += 1
        acc.outcomes["ok:" + name] += 1


def shard_load(spec):
    li, sep, quick = spec
    label = LABELS[li]
    acc = Acc()
    tmpdir = tempfile.mkdtemp(prefix="c09_")
    try:
        for tailname, tail in tails(len(label.encode("utf-8")) + len(sep.encode("utf-8")), quick):
            for chunk in (CHUNKS if quick else CHUNKS_THOROUGH):
                if quick and chunk in (2, 64) and not tailname.startswith("bad@"):
                    continue
                check_load(label, sep, tailname, tail, chunk, tmpdir, acc)
    finally:
        shutil.rmtree(tmpdir, ignore_errors=True)
    acc.sample({"label": label, "sep": sep}, cap=1)
    return acc


# ------------------------------------------------------------------ dump

def dump_modules():
    P, G = impl.PVLModule, impl.PVLGroup
    return [P([("a", 1), ("b", "x y")]),
            P([("g", G([("k", [1, 2, 3])])), ("s", "multi\nline text")]),
            P([("name", "café")]),
            P([])]


def _strip(data, head, tail):
    """the bytes between the header and the trailer, or the whole thing marked as
    misplaced when they are not where they were written"""
    if data.startswith(head) and data.endswith(tail):
        return data[len(head):len(data) - len(tail)]
    return b"<<out of order>>" + data


def shard_dump(spec):
    import pvl
    mi, encname = spec
    acc = Acc()
    m = dump_modules()[mi]
    tmpdir = tempfile.mkdtemp(prefix="c09_")
    try:
        kw = {} if encname == "default" else {"encoder": impl.make_encoder(encname)}
        try:
            want = pvl.dumps(dump_modules()[mi], **kw)
        except (ValueError, TypeError):
            return acc          # the encoder refuses this module
        wb = want.encode("utf-8")
        ascii_only = len(wb) == len(want)
        p = os.path.join(tmpdir, "out.lbl")
        targets = []
        targets.append(("str-path", lambda: pvl.dump(m, p, **kw), lambda: open(p, "rb").read(), "chars"))
        targets.append(("Path", lambda: pvl.dump(m, pathlib.Path(p), **kw), lambda: open(p, "rb").read(), "chars"))

        def text_stream():
            with open(p, "w", encoding="utf-8", newline="") as f:
                return pvl.dump(m, f, **kw)
        targets.append(("text-stream", text_stream, lambda: open(p, "rb").read(), "chars"))

        def bin_stream():
            with open(p, "wb") as f:
                return pvl.dump(m, f, **kw)
        targets.append(("binary-stream", bin_stream, lambda: open(p, "rb").read(), "bytes"))

        def text_after_header():
            with open(p, "w", encoding="utf-8", newline="") as f:
                f.write("/* header */")          # not flushed before the dump
                r = pvl.dump(m, f, **kw)
                f.write("/* trailer */")
                return r
        targets.append(("text-stream-with-other-writes", text_after_header,
                        lambda: _strip(open(p, "rb").read(), b"/* header */", b"/* trailer */"), "chars"))
        for encoding in ("latin-1", "utf-16-le"):
            try:
                enc_want = want.encode(encoding)
            except UnicodeEncodeError:
                continue

            def text_enc(encoding=encoding):
                with open(p, "w", encoding=encoding, newline="") as f:
                    return pvl.dump(m, f, **kw)
            targets.append(("text-stream-" + encoding, text_enc,
                            lambda encoding=encoding: open(p, "rb").read().decode(encoding).encode("utf-8"), "chars"))
        bio, sio = io.BytesIO(), io.StringIO()
        targets.append(("BytesIO", lambda: pvl.dump(m, bio, **kw), lambda: bio.getvalue(), "bytes"))
        targets.append(("StringIO", lambda: pvl.dump(m, sio, **kw), lambda: sio.getvalue().encode("utf-8"), "chars"))
        for name, do, read, unit in targets:
            case = {"kind": "dump", "module": mi, "encoder": encname, "target": name}
            acc.n += 1
            if os.path.exists(p):
                os.unlink(p)
            try:
                ret = do()
                got = read()
            except Exception as e:  # noqa: BLE001
                acc.violation(case, "dump-raises:" + name, "%s: %s" % (type(e).__name__, e),
                              sig="dump-raises|%s|%s" % (name, encname))
                continue
            if got != wb:
                acc.violation(case, "dump-writes-other-text:" + name, "dumps gives %r, the target holds %r"
                              % (want[:120], got[:120]), sig="dump-differs|%s|%s" % (name, encname))
                continue
            ok_len = (ret == len(want)) or (ret == len(wb) and unit == "bytes")
            if ascii_only:
                ok_len = ret == len(want)
            if not ok_len:
                acc.violation(case, "dump-reports-wrong-length:" + name, "returned %r, text has %d characters / %d "
                              "bytes" % (ret, len(want), len(wb)), sig="dump-length|%s|%s" % (name, encname))
                continue
            acc.nontrivial += 1
            acc.outcomes["dump-ok:" + name] += 1
    finally:
        shutil.rmtree(tmpdir, ignore_errors=True)
    return acc


def run(ctx):
    acc = Acc()
    q = ctx.quick
    seps = SEPS if not q else SEPS[:5]
    specs = [(li, sep, q) for li in range(len(LABELS)) for sep in seps]
    ctx.pmap(shard_load, specs, into=acc)
    ctx.pmap(shard_variants, [(fn, kn) for fn in FILE_NAMES for kn, _ in kwarg_sets()], into=acc)
    ctx.pmap(shard_big, [(e, t) for e in BIG_ENTRIES for t in ("none", "binary")
                         if not (t == "binary" and e in ("str", "StringIO", "text-stream", "short-read-text-stream"))], into=acc)
    ctx.pmap(shard_dump, [(mi, e) for mi in range(len(dump_modules())) for e in ["default"] + list(impl.ENCODERS)],
             into=acc)
    cov = {
        "evaluations": acc.n, "distinct_nontrivial": acc.nontrivial,
        "rule": "%d labels x %d separators after END x trailing byte strings (undecodable byte after k valid bytes for "
                "every k around each chunk boundary of 7/64/8192 (thorough: every k < 140 and +/-5 around 7/16/64/4096/8192), NULs, valid UTF-8, truncated multi-byte, second "
                "label, garbage, open quote/comment, long ASCII run) x entry points (str path, Path, file: URL, text "
                "stream, binary stream, BytesIO, short-read raw stream in binary and text mode, bytes, str, StringIO) "
                "x chunk sizes %r (stream entries only); variants: %d file names (blanks, '#', '%%', '?', '[', non-ASCII, sub-directories) x %d keyword-argument sets (decoder with a Decimal real class, container classes, grammar+decoder, explicit parser) x 16 ways of naming the data (str, bytes, str path, Path, a non-pathlib os.PathLike, os.DirEntry, file: URL with and without host, streams, streams positioned behind a header by seek or read) x {no tail, binary tail, a tail that is UTF-8 but outside every strict character set}, every result compared type-strictly; one label of ~300 KiB (3800 statements) through every entry point with and without a binary tail; dump: %d modules x 5 encoders x 6 targets; non-trivial = "
                "module equal to the label's module and the last token requested was END / written bytes equal "
                "dumps() and the length reported" % (len(LABELS), len(seps), CHUNKS if q else CHUNKS_THOROUGH,
                                                    len(FILE_NAMES), len(kwarg_sets()), len(dump_modules())),
        "outcome_histogram": dict(acc.outcomes),
        "samples": acc.samples[:6], "exhaustive": True,
    }
    return {"coverage": cov, "violations": acc.violations, "violations_total": acc.vio_total,
            "assumptions": ["streams are opened with encoding utf-8 (pvl's own default for bytes)",
                            "how far the lexer generator has scanned internally is not observable through public "
                            "seams; the oracle is that no token after END is requested",
                            "for non-ASCII output a binary target may report bytes or characters"]}


def replay(case):
    acc = Acc()
    if case["kind"] == "big":
        return shard_big((case["entry"], case["tail"])).violations
    if case["kind"] == "variant":
        a = shard_variants((case["file_name"], case["kwargs"]))
        return [v for v in a.violations if v["case"]["entry"] == case["entry"] and v["case"]["tail"] == case["tail"]]
    if case["kind"] == "dump":
        a = shard_dump((case["module"], case["encoder"]))
        return [v for v in a.violations if v["case"]["target"] == case["target"]]
    label, sep = case["label"], case["sep"]
    tmpdir = tempfile.mkdtemp(prefix="c09_")
    try:
        for tailname, tail in tails(len(label.encode("utf-8")) + len(sep.encode("utf-8")), False):
            if tailname == case["tail"] and len(tail) == case["tail_len"]:
                check_load(label, sep, tailname, tail, case["chunk"], tmpdir, acc)
                break
        else:
            for tailname, tail in tails(len(label.encode("utf-8")) + len(sep.encode("utf-8")), True):
                if tailname == case["tail"]:
                    check_load(label, sep, tailname, tail, case["chunk"], tmpdir, acc)
                    break
    finally:
        shutil.rmtree(tmpdir, ignore_errors=True)
    return [v for v in acc.violations if v["case"]["entry"] == case["entry"]]
