"""C02 - the default loader reads back everything any bundled encoder writes.

Same exploration as C01 (shared generator, mc/props/c01.py), separate run and
evidence; the reader is pvl.loads() with no arguments (OmniParser, OmniGrammar,
OmniDecoder).  Oracle R4 with the default loader's conventions (white-space
folding on both sides always, default zone UTC, ODL zone offsets accepted,
frozenset) and additionally module.errors == [] - the empty-value repair must
not fire on conformant output.
"""
from . import c01

LEVEL = "exploration"


def run(ctx):
    return c01.run(ctx, reader="OMNI", pid="C02")


def replay(case):
    case = dict(case, reader="OMNI")
    return c01.check_case(case)[0]


candidates = c01.candidates
