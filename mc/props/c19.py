"""C19 - pvl.new loaders return the same content as the default loaders.

Differential exploration over well-formed texts: every text of C03's spelling
x context exploration for the default dialect, the document shapes with their
keyword/delimiter spellings (all <= 1 deviations), and the tests/data corpus.
pvl.new.loads(t) must succeed exactly when pvl.loads(t) does; its containers
are PVLModuleNew / PVLGroupNew / PVLObjectNew at every level with the same
(name, value) item sequence level by level; pvl.new.dumps(new) must be the
same text as pvl.dumps(old) - for the default encoder and for each of the four
encoders parameterised with the new container classes - or refuse alike.
"""
import glob
import os

from ..runner import Acc
from ..lib import impl, spell, vjson
from . import c03

LEVEL = "exploration"

NEWCLS = {"PVLModule": "PVLModuleNew", "PVLGroup": "PVLGroupNew", "PVLObject": "PVLObjectNew"}


def tree(m, new):
    """(class name, [(key, value-or-tree)]) with values in canonical form"""
    if new:
        items = list(m.items())
    else:
        items = list(m)
    out = []
    for k, v in items:
        if isinstance(v, (impl.OrderedMultiDict, impl.pc.PVLMultiDict)):
            out.append((k, tree(v, new)))
        else:
            out.append((k, value_canon(v, new)))
    return (type(m).__name__, out)


def value_canon(v, new):
    if isinstance(v, list):
        return ("list", [value_canon(x, new) for x in v])
    if isinstance(v, (set, frozenset)):
        return ("set", sorted(repr(value_canon(x, new)) for x in v))
    if isinstance(v, impl.Quantity):
        return ("quantity", value_canon(v.value, new), v.units)
    return vjson.canon(v)


def compare(t_old, t_new, path="module"):
    co, io = t_old
    cn, inn = t_new
    if NEWCLS.get(co) != cn:
        return "%s: class %s, expected %s" % (path, cn, NEWCLS.get(co))
    if [k for k, _ in io] != [k for k, _ in inn]:
        return "%s: names %r vs %r" % (path, [k for k, _ in io], [k for k, _ in inn])
    for (k, a), (_, b) in zip(io, inn):
        if isinstance(a, tuple) and a and a[0] in NEWCLS:
            if not (isinstance(b, tuple) and b and b[0] in NEWCLS.values()):
                return "%s.%s: block became %r" % (path, k, b)
            r = compare(a, b, path + "." + k)
            if r:
                return r
        elif a != b:
            return "%s.%s: value %r vs %r" % (path, k, a, b)
    return None


def outcome(f):
    try:
        return ("ok", f())
    except (impl.LexerError, impl.ParseError) as e:
        return ("doc", type(e).__name__)
    except (ValueError, TypeError) as e:
        return ("refused", type(e).__name__)
    except Exception as e:  # noqa: BLE001
        return ("raised", type(e).__name__, str(e)[:120])


def check_text(text, name):
    import pvl
    import pvl.new
    out = []
    case = {"text": text if len(text) < 400 else None, "name": name}
    ro = outcome(lambda: pvl.loads(text))
    rn = outcome(lambda: pvl.new.loads(text))
    if ro[0] != "ok":
        if rn[0] == "ok":
            out.append({"case": case, "diagnosis": "new-accepts-what-default-rejects",
                        "detail": "%r: default %r" % (text[:100], ro)})
        return out, "rejected"
    if getattr(ro[1], "errors", []):
        return out, "missing-values(not-demanded)"
    if rn[0] != "ok":
        out.append({"case": case, "diagnosis": "new-rejects-what-default-accepts",
                    "detail": "%r: pvl.new.loads gives %r" % (text[:100], rn)})
        return out, "violation"
    d = compare(tree(ro[1], False), tree(rn[1], True))
    if d:
        out.append({"case": case, "diagnosis": "content-differs", "detail": "%r: %s" % (text[:100], d)})
        return out, "violation"
    # dumps
    pairs = [("default", lambda: pvl.dumps(pvl.loads(text)), lambda: pvl.new.dumps(pvl.new.loads(text)))]
    for e in impl.ENCODERS:
        cls = {"PVL": impl.PVLEncoder, "ODL": impl.ODLEncoder, "PDS3": impl.PDSLabelEncoder, "ISIS": impl.ISISEncoder}[e]
        pairs.append((e, (lambda c=cls: c().encode(pvl.loads(text))),
                      (lambda c=cls: c(group_class=impl.PVLGroupNew, object_class=impl.PVLObjectNew).encode(
                          pvl.new.loads(text)))))
    for ename, fo, fn in pairs:
        a, b = outcome(fo), outcome(fn)
        if a[0] == "ok" and b[0] == "ok":
            if a[1] != b[1]:
                out.append({"case": case, "diagnosis": "dumps-differ:" + ename,
                            "detail": "%r: old %r new %r" % (text[:80], a[1][:150], b[1][:150])})
        elif a[0] != b[0]:
            out.append({"case": case, "diagnosis": "dumps-outcome-differs:" + ename,
                        "detail": "%r: old %r new %r" % (text[:80], a[:2], b[:2])})
    # the other ways of calling the two loaders: an explicit grammar, an explicit decoder, bytes
    if not out and (name.startswith(("extra", "shape", "corpus")) or name in ("ctx:eof", "ctx:units", "ctx:in-group")):
        from decimal import Decimal
        variants = [("grammar=ODLGrammar()", lambda: {"grammar": impl.ODLGrammar()}),
                    ("grammar=PVLGrammar()", lambda: {"grammar": impl.PVLGrammar()}),
                    ("grammar=ISISGrammar()", lambda: {"grammar": impl.ISISGrammar()}),
                    ("decoder=OmniDecoder(real_cls=Decimal)", lambda: {"decoder": impl.OmniDecoder(real_cls=Decimal)}),
                    ("grammar+decoder", lambda: {"grammar": impl.PVLGrammar(), "decoder": impl.PVLDecoder()})]
        for vname, mk in variants + [("bytes", None)]:
            if mk is None:
                data = text.encode("utf-8")
                a, b = outcome(lambda: pvl.loads(data)), outcome(lambda: pvl.new.loads(data))
            else:
                a, b = outcome(lambda: pvl.loads(text, **mk())), outcome(lambda: pvl.new.loads(text, **mk()))
            if a[0] != "ok":
                if b[0] == "ok":
                    out.append({"case": case, "diagnosis": "new-accepts-what-default-rejects:" + vname,
                                "detail": "%r: default %r" % (text[:100], a)})
                continue
            if getattr(a[1], "errors", []):
                continue
            if b[0] != "ok":
                out.append({"case": case, "diagnosis": "new-rejects-what-default-accepts:" + vname,
                            "detail": "%r: pvl.new.loads gives %r" % (text[:100], b)})
                continue
            dd = compare(tree(a[1], False), tree(b[1], True))
            if dd:
                out.append({"case": case, "diagnosis": "content-differs:" + vname, "detail": "%r: %s" % (text[:100], dd)})
        if out:
            return out, "violation"
    # the same two results handed to one encoder after the other (an encoder may convert a block of
    # its argument in place - PDS3 does, documented - and both sides must then go the same way)
    if not out:
        encs = {"PVL": impl.PVLEncoder, "ODL": impl.ODLEncoder, "PDS3": impl.PDSLabelEncoder, "ISIS": impl.ISISEncoder}
        for order in (("default", "PVL", "ODL", "ISIS", "PDS3"), ("ISIS", "PDS3", "PVL", "default", "ODL")):
            mo, mn = pvl.loads(text), pvl.new.loads(text)
            for step, ename in enumerate(order):
                if ename == "default":
                    a, b = outcome(lambda: pvl.dumps(mo)), outcome(lambda: pvl.new.dumps(mn))
                else:
                    c = encs[ename]
                    a = outcome(lambda: pvl.dumps(mo, encoder=c()))
                    b = outcome(lambda: pvl.new.dumps(mn, encoder=c(group_class=impl.PVLGroupNew,
                                                                      object_class=impl.PVLObjectNew)))
                where = "%s (step %d of %s on the same objects)" % (ename, step + 1, "/".join(order))
                if a[0] == "ok" and b[0] == "ok" and a[1] != b[1]:
                    out.append({"case": case, "diagnosis": "dumps-differ-in-sequence:" + ename,
                                "detail": "%r: %s: old %r new %r" % (text[:80], where, a[1][:150], b[1][:150])})
                    break
                if a[0] != b[0]:
                    out.append({"case": case, "diagnosis": "dumps-outcome-differs-in-sequence:" + ename,
                                "detail": "%r: %s: old %r new %r" % (text[:80], where, a[:2], b[:2])})
                    break
                d = compare(tree(mo, False), tree(mn, True))
                if d:
                    out.append({"case": case, "diagnosis": "content-differs-after-dump:" + ename,
                                "detail": "%r: %s: %s" % (text[:80], where, d)})
                    break
            if out:
                break
    return out, ("ok" if not out else "violation")


def texts_generated(quick):
    seen = set()
    sp = spell.spellings("OMNI")
    if quick:
        sp = sp[::3]
    for text, exp, kind in sp:
        for ctxname, doc, items in c03.contexts("OMNI", text, exp, kind):
            if doc not in seen:
                seen.add(doc)
                yield "ctx:" + ctxname, doc
    for si, shape in enumerate(c03.SHAPES):
        sl = c03.slots(shape, "OMNI")
        sizes = [len(a) for _, a in sl]
        for ch in c03.deviations(sizes, 1):
            text, items = c03.render_shape(shape, ch)
            for kind in ("G", "O"):
                for bi, k in enumerate(c03.BEGIN[kind]):
                    text = text.replace("@B%d@%s" % (bi, kind), k)
            if text not in seen:
                seen.add(text)
                yield "shape%d" % si, text
    extra = ["a = 2001-01-01T12:00:00.5Z\nb = 12:00\nc = 2001-001\n", "n = \"45\u00b0 phase \u4e2d\"\nu = 1 <\u00b5m>\nr = 0.10\n", "a = NULL\nb = TRUE\nc = false\n",
             "a = 1\na = 2\nGROUP = a\n a = 3\nEND_GROUP\na = 4\n", "", "END", "\n\n",
             "OBJECT = o\n OBJECT = o\n  OBJECT = o\n   k = ((1, 2), {3}) <m>\n  END_OBJECT\n END_OBJECT\nEND_OBJECT\n"]
    for t in extra:
        yield "extra", t
    # the keywords real labels start with, in every order (encoders know some of them by name)
    import itertools as _it
    stmts = ["PDS_VERSION_ID = PDS3", "RECORD_TYPE = FIXED_LENGTH", "^IMAGE = 5", "LABEL_RECORDS = 1",
             "OBJECT = IMAGE\n  LINES = 2\nEND_OBJECT = IMAGE", "GROUP = EXTRA\n  ^TABLE = 5\nEND_GROUP"]
    for perm in _it.permutations(stmts, 3):
        yield "extra-keywords", "\n".join(perm) + "\nEND\n"
    # every container tree with <= 3 (quick) / 5 nodes, duplicate names forced, every leaf a different value
    from ..lib import gen
    for n in range(1, (3 if quick else 5) + 1):
        for f in gen.forests(n, ["a", "b"], ["g", "a"], [1]):
            counter = [0]

            def render(items, level):
                lines = []
                for k, v in items:
                    ind = "  " * level
                    if isinstance(v, dict):
                        kw = "GROUP" if v["$"] == "group" else "OBJECT"
                        lines.append("%s%s = %s" % (ind, kw, k))
                        lines += render(v["items"], level + 1)
                        lines.append("%sEND_%s = %s" % (ind, kw, k))
                    else:
                        counter[0] += 1
                        lines.append("%s%s = %s" % (ind, k, counter[0] * 1.5))
                return lines
            yield "tree", "\n".join(render(f, 0) + ["END", ""])


def corpus():
    root = os.path.join(impl.REPO, "tests", "data")
    for f in sorted(glob.glob(os.path.join(root, "**", "*"), recursive=True)):
        if os.path.isfile(f) and not f.endswith(".cub"):
            try:
                yield "corpus:" + os.path.relpath(f, impl.REPO), open(f, encoding="utf-8").read()
            except UnicodeDecodeError:
                pass


def shard(items):
    acc = Acc()
    for name, text in items:
        vs, status = check_text(text, name)
        acc.n += 1
        acc.outcomes[status] += 1
        if vs:
            for v in vs[:2]:
                c = dict(v["case"])
                if c["text"] is None:
                    c["file"] = name
                acc.violation(c, v["diagnosis"], v["detail"], sig=v["diagnosis"] + "|" + name.split(":")[0] +
                              "|" + (name if name.startswith("corpus") else text[:40]))
        elif status == "ok":
            acc.nontrivial += 1
    if items:
        acc.sample({"name": items[0][0], "text": items[0][1][:120]}, cap=1)
    return acc


def run(ctx):
    items = list(texts_generated(ctx.quick)) + list(corpus())
    specs = [items[i::96] for i in range(96) if items[i::96]]
    acc = ctx.pmap(shard, specs)
    cov = {
        "evaluations": acc.n, "distinct_nontrivial": acc.nontrivial,
        "rule": "%d distinct texts: C03's spelling x context product for the default dialect%s, 7 document shapes x all "
                "<= 1 spelling deviations, extra documents, %d corpus files; each loaded by pvl.loads and pvl.new.loads, "
                "trees compared level by level, then dumped with the default encoder and the 4 encoders (new ones "
                "parameterised with the new container classes), a subset loaded again with an explicit grammar (3), decoder, "
                "grammar + decoder and as bytes, then the same pair of results dumped by one encoder after "
                "the other in two orders with the trees re-compared after every dump; non-trivial = both loaded, trees and all dumps "
                "compared" % (len(items), " (every third spelling)" if ctx.quick else "", len(list(corpus()))),
        "outcome_histogram": dict(acc.outcomes),
        "samples": acc.samples[:6], "exhaustive": True,
    }
    return {"coverage": cov, "violations": acc.violations, "violations_total": acc.vio_total,
            "assumptions": ["text with missing values is outside 'well-formed' and is not demanded (the installed "
                            "multidict 6.8 lacks the internals PVLMultiDict.pop() relies on: the baseline's 9 "
                            "known-failing tests)"]}


def replay(case):
    text = case.get("text")
    if text is None:
        for name, t in corpus():
            if name == case.get("file") or name == case.get("name"):
                text = t
    if text is None:
        return []
    return check_text(text, case["name"])[0]
