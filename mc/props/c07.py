"""C07 - load, dump, load is stable: normalisation is idempotent.

Starts from TEXTS (what the object-side generators of C01 would have to
guess): every text of C03's spelling x context exploration that the default
loader accepts, C08's missing-value documents (placeholders), leap-second and
units-on-sequence documents, the tests/data corpus and its loadable
single-fault variants.  For each text t0 and each of the four encoders:
m1 = loads(t0); t1 = dumps(m1) (a refusal with ValueError/TypeError ends the
case); m2 = loads(t1) must succeed and be R4-equal to m1; t2 = dumps(m2) must
equal t1 byte for byte (statements that contain a set are compared after
sorting the set's elements and collapsing the white space between them).
"""
import glob
import itertools
import os
import re

from ..runner import Acc
from ..lib import impl, modgen, spell, vjson
from . import c01, c03, c08

LEVEL = "exploration"


def canon_sets(text):
    """sort the elements of every {...} outside quotes (recursively) and collapse white
    space outside quotes, so that only set element order and the wrapping it causes are
    forgiven"""
    def parse(i, close):
        elems, cur, q = [], [], None
        while i < len(text):
            c = text[i]
            if q:
                cur.append(c)
                if c == q:
                    q = None
                i += 1
                continue
            if c in "\"'":
                q = c
                cur.append(c)
            elif c == "<":
                j = text.find(">", i)
                j = len(text) - 1 if j < 0 else j
                cur.append(text[i:j + 1])
                i = j
            elif c in "{(":
                inner, i = parse(i + 1, "}" if c == "{" else ")")
                if c == "{":
                    inner = sorted(inner)
                cur.append(c + ", ".join(inner) + ("}" if c == "{" else ")"))
                continue
            elif c == close:
                elems.append("".join(cur).strip())
                return [e for e in elems if e != ""], i + 1
            elif c == "," and close is not None:
                elems.append("".join(cur).strip())
                cur = []
            elif c in " \t\r\n\f\v":
                if cur and cur[-1] != " ":
                    cur.append(" ")
            else:
                cur.append(c)
            i += 1
        elems.append("".join(cur).strip())
        return elems, i
    out, _ = parse(0, None)
    return " ".join(out)


def has_set(text):
    q = None
    for c in text:
        if q:
            if c == q:
                q = None
        elif c in "\"'":
            q = c
        elif c == "{":
            return True
    return False


def check_text(t0, encname, name):
    import pvl
    out = []
    case = {"text": t0 if len(t0) < 600 else None, "name": name, "enc": encname}
    try:
        m1 = pvl.loads(t0)
    except (impl.LexerError, impl.ParseError):
        return out, "not-loadable"
    except Exception:  # noqa: BLE001
        return out, "not-total(C06)"
    try:
        t1 = impl.make_encoder(encname).encode(m1)
    except (ValueError, TypeError):
        return out, "refused"
    except Exception as e:  # noqa: BLE001
        out.append({"case": case, "diagnosis": "dump-raises:" + encname, "detail": "%s: %s" % (type(e).__name__, e)})
        return out, "violation"
    try:
        m2 = pvl.loads(t1)
    except Exception as e:  # noqa: BLE001
        out.append({"case": case, "diagnosis": "dumped-text-does-not-load:" + encname,
                    "detail": "%s | t1 %r" % (type(e).__name__, t1[:200])})
        return out, "violation"
    want = c01.expected_module(pvl.loads(t0), encname)
    rules = modgen.rules_for("OMNI")
    nw = modgen.norm_module(want, dict(rules, upper_keys=encname in ("ODL", "PDS3")))
    ng = modgen.norm_module(m2, rules)
    if nw != ng:
        out.append({"case": case, "diagnosis": "second-load-differs:" + encname,
                    "detail": "%s | t1 %r" % (c01.first_diff(nw, ng), t1[:200])})
        return out, "violation"
    try:
        t2 = impl.make_encoder(encname).encode(m2)
    except Exception as e:  # noqa: BLE001
        out.append({"case": case, "diagnosis": "second-dump-fails:" + encname,
                    "detail": "%s: %s | t1 %r" % (type(e).__name__, str(e)[:100], t1[:160])})
        return out, "violation"
    same = (t1 == t2) if not has_set(t1) else (canon_sets(t1) == canon_sets(t2))
    if not same:
        out.append({"case": case, "diagnosis": "second-dump-differs:" + encname,
                    "detail": "t1 %r | t2 %r" % (t1[:200], t2[:200])})
        return out, "violation"
    return out, "stable"


def generated(quick):
    seen = set()
    sp = spell.spellings("OMNI")
    if quick:
        sp = sp[::2]
    for text, exp, kind in sp:
        for ctxname, doc, items in c03.contexts("OMNI", text, exp, kind):
            if quick and ctxname not in ("eof", "next-stmt", "in-group", "seq-first", "set-pair", "units", "seq-2d",
                                         "units-on-seq", "units-on-string", "hash-comment", "dup-name", "semi"):
                continue
            if doc not in seen:
                seen.add(doc)
                yield "ctx:" + ctxname, doc
    # missing values (placeholders)
    lays = c08.layouts(1)
    docs = list(c08.docs(True))
    for doc in docs[:: (6 if quick else 2)]:
        A = list(c08.assigns(doc))
        for r in (1, len(A)):
            for empty in itertools.combinations(A, r):
                for lay in lays[:: (4 if quick else 1)]:
                    t = c08.render(doc, set(empty), lay)[0]
                    if t not in seen:
                        seen.add(t)
                        yield "gap", t
    extra = ["t = 23:59:60\nu = 2016-12-31T23:59:60.5Z\n", "k = (1, 2) <m>\nj = {1, 2} <s>\n",
             "Group = g\n  a = Null\n  b = tRuE\nEnd_Group\nEnd\n", "a = \"\"\nb = ''\n",
             "a = 12:00+01:30\nb = 2001-001\nc = 2001-01-01T12:00:00.123456Z\n",
             "a = 16#FF#\nb = -2#101#\nc = 10#-9#\nd = +.5\ne = 1.E3\n", "a = \"x  y\"\nb = \"p\n   q\"\nc = 'it''s'\n",
             "s = {zz, aa, mm, \"b c\", 3, 1, 2}\n", "a = END_GROUP_1\nb = \"END\"\nc = null_1\n",
             "OBJECT=o\nEND_OBJECT\nGROUP = g\n a = 1\n A = 2\nEND_GROUP\nEND", "GROUP = g\n a = 1\n A = 2\nEND_GROUP\n",
             "k = 5 <m/s^2>\nj = 1 <%>\ni = 2 <1/s>\nh = 3 <m**x>\ng = 4 <deg.>\n",
             "t = 2001-01-01T10:00:00-05:30\nu = 23:30+02\nv = 2001-01-01T23:30:10.5+02\n",
             "a =\nb = ;\nGROUP = g\n c =\nEND_GROUP\n"]
    for t in extra:
        yield "extra", t
    # every string of the encoder-side value alphabet, written as a quoted value (and as an
    # element of a sequence), plus non-grammar white space at the edges
    odd = ["\xa0x y", "x y\xa0", "\x85x", "x\x85", "\x1cq", "q\x1f", "\u2028a", "a\u3000", "\xa0", " \xa0 ", "Infinity",
           "infinity", "INF", "NaN", "-inf", "+inf", "-nan", "1e400", "True", "False", "None", "null"]
    for sv in list(modgen.STRINGS) + odd:
        for q in ('"', "'"):
            if q in sv:
                continue
            t = "k = %s%s%s\nj = (1, %s%s%s)\n" % (q, sv, q, q, sv, q)
            if quick and q == "'" and len(sv) > 3:
                continue
            if t not in seen:
                seen.add(t)
                yield "string", t


def families(quick):
    """values whose text the loader normalises in ways only it produces: every fraction / zone
    spelling of a time, numbers beyond the float range, statements that must be wrapped"""
    fracs = ["", ".5", ".05", ".005", ".050", ".500", ".123", ".1234", ".123456", ".000001", ".999999", ".0", ".000"]
    zones = ["", "Z", "+01", "-05:30", "+12"]
    for fr in fracs:
        for z in zones:
            yield "temporal", "t = 12:00:00%s%s\nu = 2001-01-01T01:02:03%s%s\nv = (2001-060T23:59:59%s%s, 1)\n" % (
                fr, z, fr, z, fr, z)
    for d in ("0001-01-01", "0999-12-31", "1000-001", "9999-365", "2000-02-29", "2000-366"):
        yield "temporal", "d = %s\ne = %sT00:00:00\n" % (d, d)
    for n in ("1e999", "-2.5E+400", "1.0e309", "1e-999", "-1e-400", "1.7976931348623157e308", "99999999999999999999999",
              "-16#FFFFFFFFFFFFFFFFFFFFFFFF#", "2#" + "1" * 70 + "#", "0.1e-320", "1" + "0" * 400 + ".0"):
        yield "number", "k = %s\nj = (%s, 1 <m>)\ni = %s <s>\n" % (n, n, n)
    words = ["narrow-angle", "wide-angle", "push-broom", "map-projected", "line-scan", "a-b", "x-1", "pre-flight"]
    for n in (6, 9, 12):
        for off in range(0, 6 if quick else 12):
            pad = "k" * (1 + off)
            seq = ", ".join(words[i % len(words)] for i in range(n))
            yield "wrap", "%s = (%s)\n" % (pad, seq)
            yield "wrap", '%s = "%s"\n' % (pad, " ".join(words[i % len(words)] for i in range(n)))
            yield "wrap", "GROUP = g\n  %s = {%s}\nEND_GROUP\n" % (pad, ", ".join('"%s"' % words[i % len(words)] for i in range(n)))
    # units expressions with blanks in every amount and place
    for u in ("", " ", "m/s", " m ", "m  s", "KM   /   S", "a    b     c", "m\n   s", "m \n\n s", "  km  **  2  ", "m\t/\ts", "m\r\n/s"):
        yield "units", "k = 1.5 <%s>\nj = (1 <%s>, 2)\ni = (1, 2) <%s>\nGROUP = g\n h = x <%s>\nEND_GROUP\n" % (u, u, u, u)
    # every small container tree as text (repeated names at every level, groups and objects)
    from . import c19
    for name, t in c19.texts_generated(True):
        if name == "tree" or name.startswith("shape"):
            yield name, t
    # statements longer than the line, without any quoted string, whose fold can land inside units
    for n in (8, 11, 14, 17):
        for off in range(0, 6 if quick else 12):
            pad = "k" * (1 + off)
            yield "wrap", "%s = (%s) <km / s>\n" % (pad, ", ".join(str(1001 + i) for i in range(n)))
            yield "wrap", "%s = (%s)\n" % (pad, ", ".join("%d <km / s>" % (101 + i) for i in range(n // 2)))
    yield "wrap", "k = %s\n" % "-".join(["word"] * 30)
    yield "wrap", "k = (%s)\n" % ", ".join("2001-01-01T12:00:00.123456Z" for _ in range(8))


def corpus(quick):
    root = os.path.join(impl.REPO, "tests", "data")
    for f in sorted(glob.glob(os.path.join(root, "**", "*"), recursive=True)):
        if not os.path.isfile(f) or f.endswith(".cub"):
            continue
        try:
            text = open(f, encoding="utf-8").read()
        except UnicodeDecodeError:
            continue
        name = os.path.relpath(f, impl.REPO)
        yield "corpus:" + name, text
        if len(text) > (1500 if quick else 4000):
            continue
        step = 13 if quick else 3
        for i in range(0, len(text), step):
            yield "corpus-del:%s@%d" % (name, i), text[:i] + text[i + 1:]


def shard(items):
    acc = Acc()
    for name, text in items:
        for encname in impl.ENCODERS:
            vs, status = check_text(text, encname, name)
            acc.n += 1
            acc.outcomes[status] += 1
            if vs:
                v = vs[0]
                c = dict(v["case"])
                acc.violation(c, v["diagnosis"], v["detail"],
                              sig="%s|%s|%s" % (v["diagnosis"], name.split("@")[0], (text[:40] if len(text) < 600 else "")))
            elif status == "stable":
                acc.nontrivial += 1
    if items:
        acc.sample({"name": items[0][0], "text": items[0][1][:120]}, cap=1)
    return acc


def run(ctx):
    items = list(generated(ctx.quick)) + list(families(ctx.quick)) + list(corpus(ctx.quick))
    specs = [items[i::160] for i in range(160) if items[i::160]]
    acc = ctx.pmap(shard, specs)
    cov = {
        "evaluations": acc.n, "distinct_nontrivial": acc.nontrivial,
        "rule": "%d texts (C03 spelling x context texts for the default dialect, C08 missing-value documents, leap "
                "seconds / units on sequences / mixed-case keywords / based integers, temporal values in 13 fraction x 5 zone "
                "spellings, numbers beyond the float range, wrap grids of hyphenated words, units with blanks, every container tree <= 3 nodes as text, every string of the "
                "encoder-side alphabet as a quoted value, corpus files and their "
                "single-character-deletion variants) x 4 encoders: loads, dumps, loads, dumps; non-trivial = the "
                "first load and dump succeeded, the second load was R4-equal and the second dump compared"
                % len(items),
        "outcome_histogram": dict(acc.outcomes),
        "samples": acc.samples[:6], "exhaustive": True,
    }
    return {"coverage": cov, "violations": acc.violations, "violations_total": acc.vio_total,
            "assumptions": ["statements that contain a set are compared after sorting set elements and collapsing the "
                            "white space between elements (the property allows another element order, and order "
                            "changes where lines wrap)",
                            "R4 with the default loader's conventions, as in C02"]}


def replay(case):
    text = case.get("text")
    if text is None:
        for name, t in corpus(False):
            if name == case["name"]:
                text = t
                break
    if text is None:
        return []
    return check_text(text, case["enc"], case["name"])[0]
