"""C16 - parser, decoder and encoder instances carry no state between calls.

Engine E1 over instances: BFS over call histories issued to ONE instance.
State = canonical vars(instance) + fingerprint of every mutable class
attribute / module-level container of pvl.*; states are de-duplicated (equal
state => equal futures), depth-bounded.  After every call the outcome (module,
errors attribute, placeholder line numbers, exception type and attributes) is
compared with the pristine baseline: the same call on a fresh instance in a
freshly forked process that has executed nothing else.  Also the long-lived shared instances of
pvl_validate.dialects / pvl_translate.formats.
"""
import datetime as dt
import io
import multiprocessing
import sys

from ..runner import Acc
from ..lib import impl
from ..lib.vjson import canon

LEVEL = "model_checking"

TEXTS = [
    "a = 1\nb = (1, 2)\nGROUP = g\n  c = \"x\"\nEND_GROUP = g\nEND\n",
    "a =\nb = 2\nEND\n",
    "x = 1\ny =\n\nz =\nEND\n",
    "GROUP = g\n a = \"unterminated\nEND_GROUP\n",
    "a = 1\nb =",
    "\n\n\nq = 5\nr =\n",
    "a = \"\x01\"\n",
    "",
    "a = (1, 2",
    "OBJECT = o\n k = 1\nEND_GROUP = o\n",
    "a = 1 <m>\nb = {1, 2}\nt = 2001-01-01T12:00:00\nEND\n",
    # spellings that are a value in some dialects only
    "x = 16#-7F#\ny = -16#7F#\nz = 3#12#\n",
    "t = 12:00+01:30\nu = 23:59:60\nv = a+b\nw = +.5\n",
    # an empty value is recorded, then the text fails
    "a =\nb = 2\nGROUP = g\n c = 1\n",
    "p = 1\nq =\nr = (1, 2\n",
    # unquoted words, then a value with a stray comment delimiter
    "a = word\nb = other_word\n",
    "t = titan*/\n",
    "t = /*titan\n",
    # texts that are wrong at their very first token (whatever was read before must not show in the error)
    "(1, 2)\n",
    "= 5\n",
    # dash continuation (joined before parsing by the permissive parser), then errors late in a text
    "a = abc-\n   def\nb = \"x-\n  y\"\nc = 2\nEND\n",
    "x = 1\ny = 2\nlong_name = (1, 2, 3)\nz = 3 <m\nw = 4\n",
    "# hash comment\na = 1 # trailing\nb = 2\n",
    # two-line texts built from lines of equal length, so that the same offsets hold an '=' in
    # different roles: missing value / complete statement, named / stray
    "e    =     \nf    = MARS\nEND\n",
    "e    = 'x' \n     = MARS\nEND\n",
    "e    = 'x' \nf    = MARS\nEND\n",
    "e    =     \n     = MARS\nEND\n",
]

DEC_CALLS = [["simple", "16#-7F#"], ["simple", "-16#7F#"], ["simple", "3#12#"], ["simple", "23:59:60"],
             ["simple", "a*/"], ["simple", "/*a"], ["simple", "word"], ["simple", "a b"],
             ["simple", "1"], ["simple", "1.5"], ["simple", "2001-001"], ["simple", "12:00:60"],
             ["simple", '"q  r"'], ["simple", "NULL"], ["simple", "abc"], ["simple", "16#FF#"],
             ["simple", "a b"], ["datetime", "junk"], ["quantity", "1", "m"],
             ["simple", "12:00+01"], ["simple", "END"]]


class Length(float):
    """A float that also carries a unit: a plain number for every encoder unless
    some encoder has been told it is a quantity class."""

    def __new__(cls, value, units="m"):
        self = float.__new__(cls, value)
        self.value = float(value)
        self.units = units
        return self


def modules():
    P, G, O, Q = impl.PVLModule, impl.PVLGroup, impl.PVLObject, impl.Quantity
    utc = dt.timezone.utc
    p1 = dt.timezone(dt.timedelta(hours=1))
    one = lambda v: (lambda: P([("v", v)]))      # noqa: E731
    return [
        lambda: P([("a", 1), ("b", "x y"), ("c", [1, 2])]),
        lambda: P([("g", G([("a", 1)])), ("h", G([("a", 1), ("a", 2)]))]),
        lambda: P([("a", 1), ("g", G([("b", complex(1, 2))]))]),
        lambda: P([("q", Q(1.5, "m")), ("r", Q("s", "m"))]),
        lambda: P([("s", frozenset([1, 2])), ("t", dt.time(1, 2, 3, 4, tzinfo=utc))]),
        lambda: P([("o", O([("g", G([("k", "v")])), ("k", None)])), ("d", dt.date(2001, 2, 3))]),
        lambda: P([("z", dt.time(1, 2, tzinfo=p1))]),
        # values that compare/hash equal but must be written differently
        one(1), one(1.0), one(True), one(0), one(False), one("1"),
        one(dt.time(12, 0, tzinfo=utc)), one(dt.time(13, 0, tzinfo=p1)),
        one(dt.datetime(2001, 1, 1, 0, 30, tzinfo=p1)), one(dt.datetime(2000, 12, 31, 23, 30, tzinfo=utc)),
        # sequences: 2-D, 3-D (ODL refuses), a failure inside a sequence
        one([[1, 2], [3]]), one([[[1]]]), one([1, "both ' and \" quotes"]), one([1, [2, complex(0, 1)]]),
        one([dt.time(1, 2)]),
        # a number that would be a quantity if some encoder's registration leaked
        one(Length(3.5, "m")),
        lambda: P([("k" * 31, 1)]), lambda: P([("bad key", 1), ("a", 1)]),
        # a dump that fails inside an aggregation block, and blocks whose keyword could be affected by it
        lambda: P([("bad name", G([("a", 1), ("a", 2)]))]),
        lambda: P([("o", O([("x", 1)])), ("bad name", G([("a", 1), ("a", 2)]))]),
        lambda: P([("o", O([("bad name", G([("g", G([("a", 1)]))]))]))]),
        lambda: P([("g", G([("a", 1)])), ("o", O([("b", 2)])), ("h", G([("c", 3)]))]),
        lambda: P([("pixel-size", 2)]), lambda: P([("pixel-size", G([("a", 1)])), ("o", O([]))]),
        lambda: P([("l", [])]), lambda: P([("g", G([("a", [])]))]),
        # objects that look like a quantity but are of no registered class (refused, every time)
        one(QLike(5, "m")), one([QLike(1, "m"), QLike(2, "m")]),
        lambda: P([("o", O([("x", 1)])), ("g", G([("^TABLE", QLike(5, "BYTES"))]))]),
        lambda: P([("n", QLike("abc", "m"))]),
        # a set that the ODL family refuses, a string that is a symbol or a text depending on an option, a tab
        one(frozenset([1.5])), one("AB CD"), one("a\tb"), one(frozenset(["x y", 1.5])),
        # the other family of container classes (pvl.new), groups only / groups and an object
        lambda: __import__("pvl.new").new.loads("GROUP = g\n a = 1\nEND_GROUP\nGROUP = h\n b = 2\nEND_GROUP\nEND\n"),
        lambda: __import__("pvl.new").new.loads("OBJECT = o\n GROUP = g\n  a = 1\n END_GROUP\nEND_OBJECT\nk = 1\nEND\n"),
    ]


# ---------------------------------------------------------------- fingerprints

def _prim(v, depth=0):
    if isinstance(v, (str, int, float, bool, type(None), bytes)):
        return repr(v)
    if depth > 4:
        return "<deep>"
    if isinstance(v, (list, tuple)):
        return "[" + ",".join(_prim(x, depth + 1) for x in v) + "]"
    if isinstance(v, (set, frozenset)):
        return "{" + ",".join(sorted(_prim(x, depth + 1) for x in v)) + "}"
    if isinstance(v, dict):
        return "{" + ",".join(sorted(_prim(k, depth + 1) + ":" + _prim(x, depth + 1)
                                     for k, x in v.items())) + "}"
    return "<" + type(v).__name__ + ">"


def global_fingerprint():
    out = []
    for name in sorted(sys.modules):
        if not (name == "pvl" or name.startswith("pvl.")):
            continue
        mod = sys.modules[name]
        for attr in sorted(vars(mod)):
            v = vars(mod)[attr]
            if attr.startswith("__"):
                continue
            if isinstance(v, (list, dict, set)):
                out.append((name, attr, _prim(v)))
            elif isinstance(v, type) and getattr(v, "__module__", None) == name:
                for a in sorted(vars(v)):
                    x = vars(v)[a]
                    if a.startswith("__"):
                        continue
                    if isinstance(x, (list, dict, set)):
                        out.append((name, attr + "." + a, _prim(x)))
    # default-argument objects shared by every call (lexer(g=..., d=...), Token)
    from pvl import lexer as lx
    for fn in (lx.lexer, lx.lex_multichar_comments):
        for d in (fn.__defaults__ or ()):
            if hasattr(d, "__dict__"):
                out.append(("pvl.lexer", fn.__name__ + ".default:" + type(d).__name__,
                            instance_state(d)))
    return tuple(out)


def instance_state(obj, depth=0):
    if depth > 3:
        return "<deep>"
    items = []
    for k in sorted(vars(obj)):
        v = vars(obj)[k]
        if isinstance(v, (str, int, float, bool, type(None), list, tuple, dict, set, frozenset)):
            items.append((k, _prim(v)))
        elif isinstance(v, type) or callable(v) and not hasattr(v, "__dict__"):
            items.append((k, getattr(v, "__name__", type(v).__name__)))
        elif hasattr(v, "__dict__") and not callable(v):
            items.append((k, type(v).__name__ + instance_state(v, depth + 1)))
        else:
            items.append((k, "<" + type(v).__name__ + ">"))
    return repr(items)


# ---------------------------------------------------------------- calls

def outcome_parse(parser, text):
    try:
        m = parser.parse(text)
    except impl.LexerError as e:
        return ("LexerError", e.pos, e.lineno, e.colno, _ADDR.sub("0x?", str(e.msg)), e.lexeme,
                e.doc == text or len(e.doc))
    except impl.ParseError as e:
        return ("ParseError", _ADDR.sub("0x?", str(e.args[1:])), str(getattr(e, "token", None)))
    except Exception as e:  # noqa: BLE001
        return ("exc", type(e).__name__, _msg(e))
    holes = []

    def walk(c, path):
        for k, v in list(c):
            if isinstance(v, impl.EmptyValueAtLine):
                holes.append((path + (k,), v.lineno))
            if isinstance(v, impl.OrderedMultiDict):
                walk(v, path + (k,))
    walk(m, ())
    return ("ok", canon(m), list(getattr(m, "errors", ["<no errors attr>"])), holes)


_ADDR = __import__("re").compile(r"0x[0-9a-fA-F]+")


def _msg(e):
    """Exception text without object addresses (they differ between instances)."""
    return _ADDR.sub("0x?", str(e))[:300]


def outcome_encode(enc, mk):
    try:
        return ("ok", enc.encode(mk()))
    except Exception as e:  # noqa: BLE001
        return ("exc", type(e).__name__, _msg(e))


def outcome_decode(dec, call):
    try:
        if call[0] == "simple":
            return ("ok", canon(dec.decode_simple_value(call[1])))
        if call[0] == "datetime":
            return ("ok", canon(dec.decode_datetime(call[1])))
        if call[0] == "quantity":
            return ("ok", canon(dec.decode_quantity(dec.decode_simple_value(call[1]), call[2])))
    except Exception as e:  # noqa: BLE001
        return ("exc", type(e).__name__, _msg(e))


def make(kind, name):
    if kind == "parser":
        return impl.make_parser(name)
    if kind == "encoder":
        base, _, opt = name.partition(":")
        e = impl.make_encoder(base, **ENCODER_OPTIONS[opt])
        _MADE_AS[e] = name
        return e
    if kind == "decoder":
        return impl.make_grammar_decoder(name)[1]
    if kind == "validate":
        from pvl import pvl_validate
        return pvl_validate.dialects[name]
    if kind == "translate":
        from pvl import pvl_translate
        return pvl_translate.formats[name]
    raise KeyError(kind)


# encoders are also explored with non-default options (what a failing call may leave switched)
ENCODER_OPTIONS = {"": {}, "opts": {"width": 40, "aggregation_end": False},
                   "pdsopts": {"symbol_single_quote": False, "tab_replace": 2, "convert_group_to_object": False}}

INTERFERE = -1     # "somebody else in the process uses other instances"
LOADS_FOREIGN = -2  # parser: pvl.loads(text, parser=OURS, grammar=<another>, decoder=<another>) - a convenience
#                     function must not reconfigure the instance it is handed
SHARED_DUMP = -3    # encoder: dump a module object that lives as long as the encoder ...
SHARED_EDIT = -4    # ... after the caller has edited one of its groups (and toggles the edit back next time)
SHARED_FAIL = -5    # ... with a value no encoder can write put into a nested group for this one call (the dump
#                     fails part-way, the value is taken out again)


def alphabet(kind):
    if kind == "parser":
        return [INTERFERE, LOADS_FOREIGN] + list(range(len(TEXTS)))
    if kind == "validate":
        return [INTERFERE] + list(range(len(TEXTS)))
    if kind == "encoder":
        return [INTERFERE, SHARED_DUMP, SHARED_EDIT, SHARED_FAIL] + list(range(len(modules())))
    if kind == "translate":
        return [INTERFERE] + list(range(len(modules())))
    return [INTERFERE] + list(range(len(DEC_CALLS)))


_SHARED = __import__("weakref").WeakKeyDictionary()


def shared_module(inst):
    """one module object per encoder instance, kept between calls (the caller's own label)"""
    if inst not in _SHARED:
        P, G, O = impl.PVLModule, impl.PVLGroup, impl.PVLObject
        _SHARED[inst] = P([("g", G([("a", 1), ("b", 2)])), ("o", O([("h", G([("c", 3)]))])), ("k", "v")])
    return _SHARED[inst]


def rebuilt(m):
    """an equal module made of new objects"""
    if isinstance(m, impl.OrderedMultiDict):
        return type(m)([(k, rebuilt(v)) for k, v in m])
    return m


_MADE_AS = __import__("weakref").WeakKeyDictionary()


def _fresh_like(inst):
    """a new encoder built the same way (class and options) as the one under test"""
    return make("encoder", _MADE_AS.get(inst, _NAME_OF[type(inst)]))


def shared_call(inst, edit, fail=False):
    m = shared_module(inst)
    if fail:
        m["o"]["h"].append("bad", complex(1, 2))
        try:
            got = outcome_encode(inst, lambda: m)
        finally:
            m["o"]["h"].pop()
        want = outcome_encode(_fresh_like(inst), lambda: P_with_bad(m))
        return ("shared-same",) if got[:2] == want[:2] else ("shared-differs", got, want)
    if edit:
        for g in (m["g"], m["o"]["h"]):
            first = g[0][0]
            if len(g.getall(first)) > 1:
                g.pop()                      # take the repeated keyword off again
            else:
                g.append(first, 99)          # a repeated keyword: no longer a valid PDS3 GROUP
    got = outcome_encode(inst, lambda: m)
    want = outcome_encode(_fresh_like(inst), lambda: rebuilt(m))
    return ("shared-same",) if got == want else ("shared-differs", got, want)


def P_with_bad(m):
    r = rebuilt(m)
    r["o"]["h"].append("bad", complex(1, 2))
    return r


def interfere():
    """Activity on OTHER instances (of every dialect, over the whole alphabet):
    it must never influence ours."""
    for name in impl.DIALECTS:
        p = impl.make_parser(name)
        for t in TEXTS:
            outcome_parse(p, t)
        d = impl.make_grammar_decoder(name)[1]
        for c in DEC_CALLS:
            outcome_decode(d, c)
    for name in impl.ENCODERS:
        e = impl.make_encoder(name)
        e.add_quantity_cls(Length, "value", "units")
        for mk in modules():
            outcome_encode(e, mk)
    return ("ok", "interference")


_NAME_OF = {impl.PVLEncoder: "PVL", impl.ODLEncoder: "ODL", impl.PDSLabelEncoder: "PDS3", impl.ISISEncoder: "ISIS"}


class QLike:
    """has .value and .units like a quantity, but is no class any encoder was told about"""
    def __init__(self, value, units):
        self.value, self.units = value, units

    def __repr__(self):
        return "QLike(%r, %r)" % (self.value, self.units)


def do_call(kind, inst, i):
    if i == INTERFERE:
        return interfere()
    if i == LOADS_FOREIGN:
        import pvl
        if isinstance(inst.grammar, impl.ODLGrammar):
            og = impl.PVLGrammar()
            od = impl.PVLDecoder(grammar=og)
        else:
            og = impl.ODLGrammar()
            od = impl.ODLDecoder(grammar=og)
        try:
            return ("ok", canon(pvl.loads(TEXTS[0], parser=inst, grammar=og, decoder=od)))
        except Exception as e:  # noqa: BLE001
            return ("exc", type(e).__name__, _msg(e))
    if i in (SHARED_DUMP, SHARED_EDIT, SHARED_FAIL):
        return shared_call(inst, i == SHARED_EDIT, i == SHARED_FAIL)
    if kind == "parser":
        return outcome_parse(inst, TEXTS[i])
    if kind == "validate":
        # the way pvl_validate uses its shared instances
        import pvl
        r1 = outcome_parse(inst["parser"], TEXTS[i])
        try:
            m = pvl.loads(TEXTS[i], **inst)
            r2 = outcome_encode(inst["encoder"], lambda: m)
        except Exception as e:  # noqa: BLE001
            r2 = ("noload", type(e).__name__)
        return (r1, r2)
    if kind == "encoder":
        return outcome_encode(inst, modules()[i])
    if kind == "translate":
        import pvl
        buf = io.StringIO()
        try:
            inst.dump(modules()[i](), buf)
            return ("ok", buf.getvalue())
        except Exception as e:  # noqa: BLE001
            return ("exc", type(e).__name__, _msg(e))
    return outcome_decode(inst, DEC_CALLS[i])


def state_of(kind, inst):
    if kind == "encoder" and inst in _SHARED:
        return instance_state(inst) + "|shared:" + repr(canon(_SHARED[inst]))
    if kind == "validate":
        return repr([(k, instance_state(v)) for k, v in sorted(inst.items())])
    return instance_state(inst)


def fresh_kind(kind):
    return {"validate": None, "translate": None}.get(kind, kind)


def _baseline_job(args):
    kind, name, i = args
    if kind == "validate":
        # a fresh, privately built row equivalent to the shared one
        from pvl import pvl_validate  # noqa: F401
        g, d = impl.make_grammar_decoder("OMNI" if name == "Omni" else name)
        row = dict(parser={"PDS3": impl.ODLParser, "ODL": impl.ODLParser, "PVL": impl.PVLParser,
                           "ISIS": impl.OmniParser, "Omni": impl.OmniParser}[name](grammar=g, decoder=d),
                   grammar=g, decoder=d,
                   encoder={"PDS3": impl.PDSLabelEncoder, "ODL": impl.ODLEncoder, "PVL": impl.PVLEncoder,
                            "ISIS": impl.ISISEncoder, "Omni": impl.PVLEncoder}[name](grammar=g, decoder=d))
        return do_call(kind, row, i)
    if kind == "translate":
        from pvl import pvl_translate
        w = pvl_translate.PVLWriter(impl.make_encoder(name))
        return do_call(kind, w, i)
    return do_call(kind, make(kind, name), i)


def baselines(kind, name):
    """Every call of the alphabet on a fresh instance, each in a freshly forked
    process that has run nothing else (class/module-level leakage cannot
    contaminate the baseline)."""
    ctxm = multiprocessing.get_context("fork")
    out = {}
    with ctxm.Pool(1, maxtasksperchild=1) as pool:
        for i in alphabet(kind):
            out[i] = pool.apply(_baseline_job, ((kind, name, i),))
    return out


def explore(spec):
    kind, name, depth, base = spec
    if kind in ("validate", "translate"):
        return explore_shared(spec)
    acc = Acc()
    seen = {}
    frontier = [[]]
    alpha = alphabet(kind)
    d = 0
    log = []          # every history executed so far in this (fresh) process
    while frontier and d < depth:
        nxt = []
        for hist in frontier:
            for i in alpha:
                inst = make(kind, name)
                for h in hist:
                    do_call(kind, inst, h)
                out = do_call(kind, inst, i)
                log.append(hist + [i])
                acc.n += 1
                acc.transitions += 1
                if out != base[i]:
                    acc.outcomes["violation"] += 1
                    case = {"kind": kind, "name": name, "log": [list(x) for x in log]}
                    acc.violation(case, "outcome-depends-on-history:" + kind,
                                  "after %r call %r gives %r; a fresh instance in a fresh process gives %r"
                                  % (hist, i, _short(out), _short(base[i])),
                                  sig="%s|%s|%s" % (kind, name, _kindof(out, base[i])))
                    continue
                acc.nontrivial += 1
                acc.outcomes[out[0] if isinstance(out[0], str) else "pair"] += 1
                st = (state_of(kind, inst), global_fingerprint())
                if st not in seen:
                    seen[st] = hist + [i]
                    nxt.append(hist + [i])
        frontier = nxt
        d += 1
    acc.states = len(seen)
    acc.extra["fixpoint"] = 0 if frontier else 1
    acc.sample({"kind": kind, "name": name, "states": len(seen), "depth": d,
                "fixpoint_reached": not frontier})
    return acc


def explore_shared(spec):
    """Module-level shared instances cannot be rebuilt, so one cumulative
    history is issued that contains every ordered pair of calls; each outcome
    is compared with the fresh baseline and the case records the whole history
    since process start (which is what a replay re-executes)."""
    kind, name, depth, base = spec
    acc = Acc()
    inst = make(kind, name)
    alpha = alphabet(kind)
    hist = []
    seen = set()
    for i in alpha:
        for j in alpha:
            for c in (i, j):
                out = do_call(kind, inst, c)
                acc.n += 1
                acc.transitions += 1
                hist.append(c)
                if out != base[c]:
                    acc.outcomes["violation"] += 1
                    case = {"kind": kind, "name": name, "log": [list(hist)]}
                    acc.violation(case, "outcome-depends-on-history:" + kind,
                                  "after %r call %r gives %r; a fresh instance gives %r"
                                  % (hist[-5:-1], c, _short(out), _short(base[c])),
                                  sig="%s|%s|%s" % (kind, name, _kindof(out, base[c])))
                    continue
                acc.nontrivial += 1
                acc.outcomes[out[0] if isinstance(out[0], str) else "pair"] += 1
                seen.add((state_of(kind, inst), global_fingerprint()))
    acc.states = len(seen)
    acc.extra["fixpoint"] = 1
    acc.sample({"kind": kind, "name": name, "states": len(seen), "cumulative_history": len(hist)})
    return acc


def _short(o):
    return repr(o)[:220]


def _kindof(out, base):
    a = out[0] if isinstance(out[0], str) else "pair"
    b = base[0] if isinstance(base[0], str) else "pair"
    if a == b == "ok" and len(out) > 2 and out[1] == base[1]:
        return "errors-attribute"
    return a + "-vs-" + b


def _corpus_texts():
    import glob
    import os
    out = []
    for f in sorted(glob.glob(os.path.join(impl.REPO, "tests", "data", "**", "*"), recursive=True)):
        if os.path.isfile(f) and not f.endswith(".cub"):
            try:
                t = open(f, encoding="utf-8").read()
            except UnicodeDecodeError:
                continue
            if len(t) < 1200:
                out.append(t)
    return out


def run(ctx):
    depth = 3 if ctx.quick else 4
    if not ctx.quick:
        # thorough: the short corpus files join the text alphabet (module-level list: forked workers inherit it)
        TEXTS.extend(t for t in _corpus_texts() if t not in TEXTS)
    specs = []
    for name in impl.DIALECTS:
        specs.append(("parser", name, depth))
        specs.append(("decoder", name, depth if ctx.quick else 3))
    for name in impl.ENCODERS:
        specs.append(("encoder", name, depth))
        specs.append(("encoder", name + (":pdsopts" if name == "PDS3" else ":opts"), 2))
        specs.append(("translate", name, 2))
    for name in ("PDS3", "ODL", "PVL", "ISIS", "Omni"):
        specs.append(("validate", name, 2))
    # baselines are computed here, in processes forked from this parent, which
    # itself never executes a pvl call
    specs = [(k, n, d, baselines(k, n)) for k, n, d in specs]
    acc = Acc()
    with multiprocessing.get_context("fork").Pool(16, maxtasksperchild=1) as pool:
        for r in pool.imap_unordered(explore, specs):
            acc.merge(r)
            if __import__('mc.runner').runner.enough(acc):
                break
    cov = {
        "evaluations": acc.n,
        "distinct_nontrivial": acc.nontrivial,
        "states": acc.states,
        "transitions": acc.transitions,
        "traces_validated_against_impl": acc.transitions,
        "rule": "BFS over call histories on one instance: 5 parser configurations x %d texts, 5 decoders "
                "x %d decode calls, 4 encoders x %d modules, shared pvl_validate.dialects rows and "
                "pvl_translate.formats writers; state = canonical vars(instance) (+ global fingerprint), "
                "de-duplicated, depth <= %d; every transition's outcome compared with a fresh instance "
                "in a fresh process; non-trivial = outcome equal and state recorded"
                % (len(TEXTS), len(DEC_CALLS), len(modules()), depth),
        "fixpoints_reached": acc.extra["fixpoint"], "explorations": len(specs),
        "outcome_histogram": dict(acc.outcomes),
        "samples": acc.samples[:8],
        "exhaustive": True,
    }
    return {"coverage": cov, "violations": acc.violations, "violations_total": acc.vio_total,
            "assumptions": ["a parser may remember the last document (parser.doc) as long as no later "
                            "result depends on it",
                            "dateutil/astropy/pint are absent: their branches are not exercised"]}


def replay(case):
    """Always in a freshly forked process: the log is the complete list of
    histories the process had executed (each on its own instance, or - for the
    shared module-level instances - one cumulative history)."""
    base = baselines(case["kind"], case["name"])
    with multiprocessing.get_context("fork").Pool(1, maxtasksperchild=1) as pool:
        return pool.apply(_replay, (case, base))


def _replay(case, base):
    kind, name = case["kind"], case["name"]
    shared = kind in ("validate", "translate")
    out = None
    last = None
    for hist in case["log"]:
        if not hist:
            continue
        inst = make(kind, name)
        for h in hist:
            out = do_call(kind, inst, h)
        last = hist[-1]
    if last is None:
        return []
    if out != base[last]:
        return [{"case": case, "diagnosis": "outcome-depends-on-history:" + kind,
                 "detail": "log of %d histories, last %r: %s vs fresh %s"
                           % (len(case["log"]), case["log"][-1], _short(out), _short(base[last]))}]
    return []


def candidates(case):
    log = case["log"]
    n = len(log)
    if n > 1:
        # only the last history (a pure per-instance leak), then ddmin-style chunks
        yield dict(case, log=[log[-1]])
        size = n // 2
        while size >= 1:
            for lo in range(0, n - 1, size):
                c = log[:lo] + log[min(lo + size, n - 1):]
                if len(c) < n:
                    yield dict(case, log=c)
            size //= 2
    last = log[-1]
    for i in range(len(last) - 1):
        yield dict(case, log=log[:-1] + [last[:i] + last[i + 1:]])
