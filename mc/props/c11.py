"""C11 - copies of a container are equal, independent, leave the original intact.

Engine E1 continued.  States: every list of <= N pairs over keys {a,b} and
values {1, nested group with a duplicate key}, reached by several builder
histories (constructor, appends, reverse inserts, append+pop), in each of the
four classes.  Transitions: each copy mechanism (.copy(), copy.copy,
copy.deepcopy, pickle protocols 0..5) followed by every mutation sequence of
length <= L on the copy and on the original (top level; for deep copies and
pickles also on the nested level).  Oracle: the copy equals the original and
has the same classes at every level; the original's complete concrete state
is unchanged by copying; after mutating one side the other side's concrete
state is unchanged.
"""
import copy
import itertools
import pickle

from ..runner import Acc
from ..lib import container as C
from ..lib import impl

LEVEL = "model_checking"

KEYS = ["a", "b"]
MECHS = ["method", "copy", "deepcopy"] + ["pickle%d" % p for p in range(0, pickle.HIGHEST_PROTOCOL + 1)]
DEEP = {"deepcopy"} | {m for m in MECHS if m.startswith("pickle")}
BUILDERS = ["ctor", "appends", "rev_insert", "append_pop", "setitem_dup", "with_attributes"]


def mkval(tag):
    if tag == "G":
        return impl.PVLGroup([("x", 1), ("x", 2)])
    if tag == "O":
        return impl.PVLObject([("x", 1), ("g", impl.PVLGroup([("y", 1)])), ("e", impl.PVLGroup())])
    if tag == "E":
        return impl.PVLGroup()          # empty (falsy) nested container
    if tag == "Q":
        return impl.Quantity([1, [2, 3]], "m")      # what 'k = (1, (2, 3)) <m>' loads as: a mutable list inside
    if tag == "L":
        return [1, [2, 3]]
    if tag == "D":
        return {"x": 1, "y": [2]}       # a plain dict put there by hand
    return tag


def build(cls, pairs, builder):
    K = C.CLASSES[cls]
    items = [(k, mkval(v)) for k, v in pairs]
    if builder == "ctor":
        return K(items)
    o = K()
    if builder == "appends":
        for k, v in items:
            o.append(k, v)
    elif builder == "rev_insert":
        for k, v in reversed(items):
            o.insert(0, k, v)
    elif builder == "append_pop":
        for k, v in items:
            o.append(k, v)
        o.append("b", 7)
        o.pop()
    elif builder == "with_attributes":
        # what every loaded module looks like: instance attributes next to the items
        for k, v in items:
            o.append(k, v)
        o.errors = [3, 1]
        o.note = {"source": "f.lbl"}
        for _, v in items:
            if isinstance(v, impl.OrderedMultiDict):
                v.errors = []
    elif builder == "setitem_dup":
        # leaves the same list, but went through the replace-and-drop path
        for k, v in items:
            o.append(k, v)
        o.append("zz", 0)
        o.append("zz", 1)
        del o["zz"]
    return o


def do_copy(o, mech):
    if mech == "method":
        return o.copy()
    if mech == "copy":
        return copy.copy(o)
    if mech == "deepcopy":
        return copy.deepcopy(o)
    p = int(mech[6:])
    return pickle.loads(pickle.dumps(o, protocol=p))


MUTS = [["update_nested", "a"], ["setitem_nested", "b"], ["append", "a", 5], ["append", "c", 5], ["setitem", "a", 5], ["setitem", "c", 5],
        ["delitem", "a"], ["delitem", "b"], ["pop"], ["insert3", 0, "b", 5], ["clear"],
        ["setdefault", "c", 5], ["update_dict", "a", 6], ["popk", "a"],
        ["extend_list", "b", 5], ["insert_before", "a", "c", 5, 0]]
NESTED = [["n_append"], ["n_setitem"], ["n_pop"], ["n_clear"], ["n_insert"], ["n_mutables"]]


def nested_containers(o, depth=0):
    for k, v in list(o):
        if isinstance(v, impl.OrderedMultiDict):
            yield v
            if depth < 3:
                yield from nested_containers(v, depth + 1)


def mutate(o, mut):
    if mut[0] == "n_mutables":
        # every mutable value that is not a container of ours: lists, the list inside a quantity, plain dicts
        for k, v in list(o):
            if isinstance(v, impl.Quantity):
                v = v.value
            if isinstance(v, list):
                v.append(9)
                if len(v) > 1 and isinstance(v[1], list):
                    v[1].append(8)
            elif isinstance(v, dict) and not isinstance(v, impl.OrderedMultiDict):
                v["zz"] = 9
        return True
    if mut[0].startswith("n_"):
        # every nested container, at every depth
        hit = False
        for v in list(nested_containers(o)):
            hit = True
            if mut[0] == "n_append": v.append("y", 9)
            elif mut[0] == "n_setitem": v["x"] = 9
            elif mut[0] == "n_pop":
                try:
                    v.pop()
                except LookupError:
                    pass
            elif mut[0] == "n_clear": v.clear()
            elif mut[0] == "n_insert": v.insert(0, "w", 9)
        return hit
    if mut[0] == "update_nested":
        o.update({mut[1]: impl.PVLGroup([("z", 1)])})
        return True
    if mut[0] == "setitem_nested":
        o[mut[1]] = impl.PVLObject([("z", 2)])
        return True
    C.apply(o, mut, KEYS, [5, 6])
    return True


def classes_of(o):
    out = [type(o).__name__]
    for k, v in list(o):
        if isinstance(v, impl.OrderedMultiDict):
            out.append((k, classes_of(v)))
        elif isinstance(v, (dict, list, tuple)):
            out.append((k, type(v).__name__))
    return out


def deep_invariant(o):
    inv = C.invariant(o)
    if inv:
        return inv
    for k, v in C._items_of(o):
        if isinstance(v, impl.OrderedMultiDict):
            inv = deep_invariant(v)
            if inv:
                return "nested %r: %s" % (k, inv)
    return None


def shares_nested(a, b):
    ia = {id(v) for _, v in list(a) if isinstance(v, impl.OrderedMultiDict)}
    ib = {id(v) for _, v in list(b) if isinstance(v, impl.OrderedMultiDict)}
    return bool(ia & ib)


def check_case(case):
    """case: {cls, pairs, builder, mech, side, muts}.  Returns violation dicts."""
    cls, pairs, builder, mech = case["cls"], case["pairs"], case["builder"], case["mech"]
    o = build(cls, pairs, builder)
    # the views of the original have been in use before it is copied
    for view in (o.keys(), o.values(), o.items()):
        list(view)
        len(view)
    o == o
    before = C.concrete(o)
    expect_items = [(k, C._cv(v)) for k, v in list(o)]
    try:
        c = do_copy(o, mech)
    except Exception as e:  # noqa: BLE001
        return [{"case": case, "diagnosis": "copy-raised:" + mech,
                 "detail": "%s: %s" % (type(e).__name__, e)}]
    out = []

    def bad(diag, detail):
        out.append({"case": case, "diagnosis": diag + ":" + mech, "detail": detail})

    if C.concrete(o) != before:
        bad("original-changed-by-copying", "before %r after %r" % (before, C.concrete(o)))
        return out
    if type(c) is not type(o):
        bad("copy-class", "%s -> %s" % (type(o).__name__, type(c).__name__))
        return out
    inv = deep_invariant(c)
    if inv:
        bad("copy-inconsistent", inv)
        return out
    if classes_of(c) != classes_of(o):
        bad("copy-nested-class", "%r vs %r" % (classes_of(o), classes_of(c)))
    if [(k, C._cv(v)) for k, v in list(c)] != expect_items:
        bad("copy-content", "original %r copy %r" % (expect_items, list(c)))
        return out
    if not (c == o) or (c != o) or not (o == c):
        bad("copy-not-equal", "copy == original is False")
    if c is o:
        bad("copy-is-original", "")
    if mech in DEEP and shares_nested(o, c):
        bad("deep-copy-shares-nested", "")
    if out:
        return out
    # independence
    muts = case.get("muts") or []
    if not muts:
        return out
    side = case["side"]
    target, other = (c, o) if side == "copy" else (o, c)
    other_before = C.concrete(other)
    other_public_before = public(other)
    target_public_before = public(target)
    nested = any(m[0].startswith("n_") for m in muts)
    for m in muts:
        mutate(target, m)
    inv = deep_invariant(target)
    if inv:
        bad("mutated-side-inconsistent", inv)
    if not nested and muts and public(target)[0] != [p for p in _expected_after(target_public_before[0], muts)]:
        bad("mutated-side-views-wrong", "the views of the mutated side show %r, expected %r"
            % (public(target)[0], _expected_after(target_public_before[0], muts)))
    for side_name, obj, want in (("untouched side", other, other_public_before),):
        got = public(obj)
        if got != want:
            bad("mutation-shows-through-views",
                "the views of the %s changed: %r -> %r" % (side_name, want, got))
    if C.concrete(other) != other_before:
        bad("mutation-shows-through" + ("-nested" if nested else ""),
            "mutating the %s with %r changed the other side: %r -> %r"
            % (side, muts, other_before, C.concrete(other)))
    return out


def public(o):
    """what the public views show (keys, values by canonical form, len, equality with itself)"""
    items = [(k, C._cv(v)) for k, v in list(o.items())]
    return (items, list(o.keys()), [C._cv(v) for v in o.values()], len(o), [C._cv(p[1]) for p in list(o)])


def _expected_after(items, muts):
    """list model of the top-level mutations (values by canonical form)"""
    from ..lib import listmodel
    L = list(items)
    for m in muts:
        if m[0] == "update_nested":
            listmodel._setitem(L, m[1], C._cv(impl.PVLGroup([("z", 1)])))
        elif m[0] == "setitem_nested":
            listmodel._setitem(L, m[1], C._cv(impl.PVLObject([("z", 2)])))
        else:
            listmodel.apply(L, m, KEYS, [5, 6])
    return L


def states(n_max, vals):
    pv = [(k, v) for k in KEYS for v in vals]
    for n in range(0, n_max + 1):
        for combo in itertools.product(pv, repeat=n):
            yield [list(p) for p in combo]


def shard(spec):
    cls, pairs, mut_len, nested_len = spec
    acc = Acc()
    has_nested = any(v in ("G", "O", "E", "Q", "L", "D") for _, v in pairs)
    mutseqs = [[]]
    for L in range(1, mut_len + 1):
        mutseqs += [list(s) for s in itertools.product(MUTS, repeat=L)]
    nseqs = []
    if has_nested:
        for L in range(1, nested_len + 1):
            nseqs += [list(s) for s in itertools.product(NESTED, repeat=L)]
        nseqs += [[n, m] for n in NESTED[:2] for m in MUTS[:4]]
    for builder in BUILDERS:
        acc.states += 1
        for mech in MECHS:
            for side in ("copy", "orig"):
                seqs = list(mutseqs)
                if mech in DEEP:
                    seqs += nseqs
                for muts in seqs:
                    if not muts and side == "orig":
                        continue
                    case = {"cls": cls, "pairs": pairs, "builder": builder, "mech": mech,
                            "side": side, "muts": muts}
                    vs = check_case(case)
                    acc.n += 1
                    acc.transitions += 1
                    if vs:
                        acc.outcomes["violation"] += 1
                        for v in vs[:1]:
                            acc.violation(v["case"], v["diagnosis"], v["detail"],
                                          sig=v["diagnosis"] + "|" + cls)
                    else:
                        acc.nontrivial += 1
                        acc.outcomes[mech] += 1
    acc.sample({"class": cls, "pairs": pairs})
    return acc


def run(ctx):
    if ctx.quick:
        n_max, vals, mut_len, nested_len = 2, [1, "G", "E"], 1, 1
    else:
        n_max, vals, mut_len, nested_len = 3, [0, "G", "O", "E"], 2, 2
    specs = []
    # hand-built values: a quantity holding a list, a plain list, a plain dict
    extra_states = []
    for t in ("Q", "L", "D"):
        extra_states += [[["a", t]], [["a", t], ["b", 1]], [["a", 1], ["a", t]]]
    # containers larger than any plausible fast-path threshold, keys repeating with other keys in between
    for n in (17, 33, 70):
        extra_states.append([[("a", "b", "c")[i % 3], 1 if i % 5 else "G"] for i in range(n)])
    for cls in C.CLASSES:
        for pairs in extra_states:
            specs.append((cls, pairs, 1, 1))
    for cls in C.CLASSES:
        for pairs in states(n_max, vals):
            specs.append((cls, pairs, mut_len, nested_len))
        if ctx.quick:
            # a few three-pair states with the second mutation step
            for pairs in ([["a", 1], ["a", "G"], ["b", 1]], [["a", "G"], ["b", "E"], ["a", 0]], [["a", "O"]]):
                specs.append((cls, pairs, 2, 1))
    acc = ctx.pmap(shard, specs)
    cov = {
        "evaluations": acc.n,
        "distinct_nontrivial": acc.nontrivial,
        "states": acc.states,
        "transitions": acc.transitions,
        "traces_validated_against_impl": acc.transitions,
        "rule": "states = (class in 4, lists of 17 / 33 / 70 pairs with interleaved repeated keys, hand-built values, list of <= %d pairs over keys {a,b} x values %r, builder history "
                "in %r); transitions = copy mechanism in %r followed by every top-level mutation "
                "sequence of length <= %d (menu of %d operations) on the copy / on the original, and "
                "for deep copies and pickles every nested-level sequence of length <= %d; non-trivial "
                "= the copy was made and all comparisons were evaluated"
                % (n_max, vals, BUILDERS, MECHS, mut_len, len(MUTS), nested_len),
        "mechanism_histogram": dict(acc.outcomes),
        "samples": acc.samples[:6],
        "exhaustive": True,
    }
    return {"coverage": cov, "violations": acc.violations, "violations_total": acc.vio_total,
            "assumptions": ["extra instance attributes (e.g. module.errors) are not part of "
                            "'equal' and are not demanded of a copy",
                            "shallow copies (.copy(), copy.copy) may share nested containers; "
                            "only their top level must be independent"]}


def replay(case):
    return check_case(case)


def candidates(case):
    muts = case.get("muts") or []
    for i in range(len(muts)):
        c = dict(case); c["muts"] = muts[:i] + muts[i + 1:]
        yield c
    pairs = case["pairs"]
    for i in range(len(pairs)):
        c = dict(case); c["pairs"] = pairs[:i] + pairs[i + 1:]
        yield c
    if case["builder"] != "ctor":
        c = dict(case); c["builder"] = "ctor"
        yield c
