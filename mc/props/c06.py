"""C06 - loaders terminate and fail only with the documented error types.

Engines E4 (all character strings <= n over PVL-significant alphabets), E2 (all
token sequences <= k over the 18-token alphabet) and an exhaustive single-fault
enumeration of the tests/data corpus (every truncation, deletion, duplication,
adjacent swap), each through the five loader configurations under a
deterministic step budget (counting lexer passed through the public lexer_fn;
no wall clock).  Oracle: the call returns a module or raises LexerError or
ParseError within the budget; anything else is a violation.
"""
import glob
import itertools
import os

from ..runner import Acc
from ..lib import impl, loaders, tokens

LEVEL = "exploration"

ALPHA17 = 'a=1 ;(,){}<"/*#-\n'
ALPHA9 = 'a=1 (,)"\n'
ALPHA_ROT = "a=1 E.+:'>_TZ-"
ALPHA_KW = ["GROUP", "END_GROUP", "END", "=", "a", " ", "\n", "1", ";", "OBJECT", "END_OBJECT", "("]


def judge(acc, kind, case_text, payload):
    order = loaders.dialect_order(case_text)
    for di, d in enumerate(order):
        r = loaders.outcome(d, case_text)
        acc.n += 1
        b = loaders.brief(r)
        acc.outcomes[b if b in ("ok", "LexerError", "ParseError") else "BAD"] += 1
        if r[0] in ("ok", "doc"):
            continue
        case = {"kind": kind, "text": case_text, "dialect": d, "prior_dialects": order[:di]}
        case.update(payload)
        acc.violation(case, ("spin:" if r[0] == "spin" else "escaped-" + r[1] + ":") + d,
                      "text %r -> %s" % (case_text[:120], b if r[0] == "spin" else repr(r[2])[:200]),
                      sig="%s|%s|%s" % (d, b, _shape(case_text)))


def _shape(text):
    """coarse shape used only to de-duplicate reports"""
    return "".join("a" if c.isalnum() else c for c in text)[:24]


def shard_chars(spec):
    alpha, n, prefix = spec
    acc = Acc()
    seen = 0
    for tup in itertools.product(alpha, repeat=n - len(prefix)):
        s = prefix + "".join(tup)
        judge(acc, "chars", s, {})
        seen += 1
    acc.nontrivial = seen
    acc.sample({"chars": prefix + "".join(alpha[:1]) * (n - len(prefix)), "n": n}, cap=1)
    return acc


def shard_tokens(spec):
    alpha_idx, n, prefix = spec
    alpha = [tokens.ALPHABET18[i] for i in alpha_idx]
    acc = Acc()
    for tup in itertools.product(alpha, repeat=n - len(prefix)):
        seq = [tokens.ALPHABET18[i] for i in prefix] + list(tup)
        judge(acc, "tokens", tokens.render(seq), {})
        acc.nontrivial += 1
    acc.sample({"tokens": tokens.render([tokens.ALPHABET18[i] for i in prefix])}, cap=1)
    return acc


def shard_words(spec):
    n, prefix = spec
    acc = Acc()
    for tup in itertools.product(ALPHA_KW, repeat=n - len(prefix)):
        s = "".join(prefix) + "".join(tup)
        judge(acc, "words", s, {})
        acc.nontrivial += 1
    return acc


DATES = ["", "2001-01-01", "2001-001", "2001-1-1", "1990-7", "0000-01-01", "2001-13-01", "2001-366",
         "2000-366", "99-1", "2001-02-30", "-2001-01-01"]
TIMES = ["", "12:00", "12:00:60", "23:59:60.5", "24:00", "1:2", "12:00:00.123456", "12:00:00.1234567",
         "12:60", "12:00:61", "12", "12:00:00.", "00:00:00"]
ZONES = ["", "Z", "+1", "+01", "-01", "+13", "+01:30", "-0130", "+1:30", "+0", "-12:60", "z", "+", "-",
         "+01:", "Z+01", "+001", "-1:5"]


def temporal_tokens():
    for d in DATES:
        for t in TIMES:
            if not d and not t:
                continue
            for z in ZONES:
                yield d + ("T" if d and t else "") + t + z
            if d and t:
                yield d + " " + t
                yield d + "t" + t


def shard_temporal(spec):
    part, nparts = spec
    acc = Acc()
    for i, tok in enumerate(temporal_tokens()):
        if i % nparts != part:
            continue
        for text in ("k = %s" % tok, "k = (%s, %s)\nEND" % (tok, tok), "k = {%s} <m>" % tok,
                     "GROUP = g\n k = %s <s>\nEND_GROUP" % tok):
            judge(acc, "temporal", text, {})
            acc.nontrivial += 1
    acc.sample({"temporal": "k = 2001-001T12:00:60+01:30"}, cap=1)
    return acc


def shard_contexts(spec):
    """grammar-directed inputs: every context template of C03 for a few spellings, in every dialect's
    reading (whether the text is well-formed there or not does not matter here)"""
    from . import c03
    part, nparts = spec
    acc = Acc()
    seen = set()
    i = 0
    for text, exp, kind in (("7", 7, "int"), ("1.5", 1.5, "real"), ('"s t"', "s t", "qstr"), ("abc", "abc", "ustr"),
                            ("16#-7F#", -127, "int"), ("-2#101#", -5, "int"), ("+.5E+3", 500.0, "real")):
        for d in ("PVL", "OMNI"):
            for ctxname, doc, items in c03.contexts(d, text, exp, kind):
                if doc in seen:
                    continue
                seen.add(doc)
                i += 1
                if i % nparts == part:
                    judge(acc, "context", doc, {})
                    acc.nontrivial += 1
    return acc


COMPACT = [
    "A=1\nB=2\nC=3\nD=4\nE=5\nF=6\nG=7\nH=8\nI=9\nJ=10\nK=11\nL=12\nEND\n",
    "k=(1.0,2.0,3.0,4.0,5.0,6.0,7.0,8.0,9.0,10.0,11.0,12.0)",
    "GROUP=g\na=(1,2,3)<m>\nb={x,y,z}\nEND_GROUP=g\nc=\"qqqqqqqqqqqqqqqqqqqqqqqqqqqqqqqq\"\nEND",
    "a_very_long_parameter_name_of_more_than_thirty_characters=another_long_unquoted_word",
    "t=2001-01-01T12:00:00.123456+01:30;u=16#FFFFFFFFFFFFFFFFFFFFFFFFFFFF#;v=-1.5E+300<km/s>;",
    "OBJECT=o;OBJECT=p;x=((1,2),(3,4));END_OBJECT=p;END_OBJECT=o;y='zzzzzzzzzzzzzzzzzzzzzzzz';",
]
COMPACT_FAULT_CHARS = ["}", ")", "(", "{", "\"", "'", "<", ">", ";", "=", ",", "#", "/*", "*/", "\x01", "\xe9", "-\n", " "]


def shard_compact(spec):
    """long texts with (almost) no white space x every single-character fault at every position:
    errors raised far from any blank, deep inside long lexemes and long lines"""
    ti, part, nparts = spec
    text = COMPACT[ti]
    acc = Acc()
    j = 0
    for i in range(len(text) + 1):
        variants = [text[:i] + c + text[i:] for c in COMPACT_FAULT_CHARS]
        if i < len(text):
            variants += [text[:i] + c + text[i + 1:] for c in COMPACT_FAULT_CHARS[:9]]
            variants += [text[:i] + text[i + 1:], text[:i]]
        for t in variants:
            j += 1
            if j % nparts == part:
                judge(acc, "compact", t, {})
                acc.nontrivial += 1
    acc.sample({"compact_text": text}, cap=1)
    return acc


def corpus_files():
    root = os.path.join(impl.REPO, "tests", "data")
    fs = sorted(glob.glob(os.path.join(root, "**", "*"), recursive=True))
    out = []
    for f in fs:
        if os.path.isfile(f) and not f.endswith(".cub"):
            try:
                t = open(f, encoding="utf-8").read()
            except UnicodeDecodeError:
                t = open(f, encoding="latin-1").read()
            out.append((os.path.relpath(f, impl.REPO), t))
    return out


def faults(text, kinds, stride=1):
    n = len(text)
    for i in range(n):
        if stride > 1 and i % stride and text[i - 1:i] != "\n":
            continue          # quick tier on long files: every stride-th position and every line start
        if "trunc" in kinds:
            yield ("trunc", i, text[:i])
        if "del" in kinds:
            yield ("del", i, text[:i] + text[i + 1:])
        if "dup" in kinds:
            yield ("dup", i, text[:i + 1] + text[i:])
        if "swap" in kinds and i + 1 < n and text[i] != text[i + 1]:
            yield ("swap", i, text[:i] + text[i + 1] + text[i] + text[i + 2:])


def shard_corpus(spec):
    fname, text, kinds, lo, hi = spec[:5]
    stride = spec[5] if len(spec) > 5 else 1
    acc = Acc()
    for kind, i, t in faults(text, kinds, stride):
        if not (lo <= i < hi):
            continue
        judge(acc, "corpus", t, {"file": fname, "fault": kind, "at": i})
        acc.nontrivial += 1
    acc.sample({"file": fname, "faults": kinds, "range": [lo, hi]}, cap=1)
    return acc


def run(ctx):
    acc = Acc()
    q = ctx.quick
    # E4: character strings
    nmain = 4 if q else 5
    specs = []
    for n in range(1, nmain + 1):
        if n <= 2:
            specs.append((ALPHA17, n, ""))
        else:
            specs += [(ALPHA17, n, a + b) for a in ALPHA17 for b in ALPHA17]
    n9 = 5 if q else 7
    specs += [(ALPHA9, n9, a + b) for a in ALPHA9 for b in ALPHA9]
    nrot = 3 if q else 4
    specs += [(ALPHA_ROT, nrot, a) for a in ALPHA_ROT]
    ctx.pmap(shard_chars, specs, into=acc)
    # E2: token sequences
    k = 4 if q else 5
    idx = list(range(len(tokens.ALPHABET18)))
    tspecs = []
    for n in range(1, k + 1):
        if n <= 2:
            tspecs.append((idx, n, []))
        else:
            tspecs += [(idx, n, [i, j]) for i in idx for j in idx]
    ctx.pmap(shard_tokens, tspecs, into=acc)
    # keyword-level strings without forced separators
    kw = 4 if q else 5
    ctx.pmap(shard_words, [(kw, [a, b]) for a in ALPHA_KW for b in ALPHA_KW], into=acc)
    # field products of date / time / zone fragments (valid and invalid) as values
    ctx.pmap(shard_temporal, [(p, 32) for p in range(32)], into=acc)
    ctx.pmap(shard_contexts, [(p, 16) for p in range(16)], into=acc)
    ctx.pmap(shard_compact, [(ti, p, 8) for ti in range(len(COMPACT)) for p in range(8)], into=acc)
    # corpus, exhaustive single faults
    files = corpus_files()
    cspecs = []
    budget_chars = 0
    for fname, text in files:
        stride = 1
        if q:
            kinds = ["trunc"] if len(text) > 250 else ["trunc", "del"]
            stride = 1 if len(text) <= 250 else (3 if len(text) <= 1100 else 12)
            if len(text) > 6000:
                continue
        else:
            kinds = ["trunc", "del", "dup", "swap"]
        step = 400
        for lo in range(0, len(text), step):
            cspecs.append((fname, text, kinds, lo, lo + step, stride))
        budget_chars += len(text)
    ctx.pmap(shard_corpus, cspecs, into=acc)
    cov = {
        "evaluations": acc.n, "distinct_nontrivial": acc.nontrivial,
        "rule": "every string over %r up to length %d, over %r up to length %d, over %r up to length %d; every "
                "token sequence of length <= %d over the 18-token alphabet rendered with single spaces; every "
                "concatenation of <= %d items of %r; every C03 context template for 7 spellings; %d long texts without white space x every position x insertion of %d fault strings / replacement / deletion / truncation; every product of date x time x zone fragments (valid and invalid) in 4 value contexts; every single-character fault (quick: truncation at every position of files <= 250 chars, "
                "at every 3rd/12th position and every line start of longer ones, deletion in files <= 250 chars; thorough: truncation, deletion, duplication, adjacent swap) of "
                "%d corpus files (%d characters); each through the 5 loader configurations under a step "
                "budget of 200+60*len (x20 before a spin is reported); distinct_nontrivial counts distinct "
                "input texts (each text is one case evaluated on 5 loaders)"
                % (ALPHA17, nmain, ALPHA9, n9, ALPHA_ROT, nrot, k, kw, ALPHA_KW, len(COMPACT), len(COMPACT_FAULT_CHARS),
                   len(cspecs) and len(files),
                   budget_chars),
        "outcome_histogram": dict(acc.outcomes),
        "samples": acc.samples[:8], "exhaustive": True,
    }
    return {"coverage": cov, "violations": acc.violations, "violations_total": acc.vio_total,
            "assumptions": ["non-termination is decided by a deterministic step budget on lexer pulls "
                            "(legitimate parses use <= ~12 per token); loops that never touch the token "
                            "stream are outside its reach",
                            "nesting depth in the explored inputs is far below the recursion limit"]}


def replay(case):
    acc = Acc()
    loaders.run_prior(case, case["text"])
    r = loaders.outcome(case["dialect"], case["text"])
    if r[0] in ("ok", "doc"):
        return []
    b = loaders.brief(r)
    return [{"case": case, "diagnosis": ("spin:" if r[0] == "spin" else "escaped-" + r[1] + ":") + case["dialect"],
             "detail": "text %r -> %s" % (case["text"][:120], b)}]


def candidates(case):
    t = case["text"]
    if len(t) > 400:
        return
    for i in range(len(t)):
        c = {"kind": case["kind"], "dialect": case["dialect"], "text": t[:i] + t[i + 1:],
             "prior_dialects": case.get("prior_dialects", [])}
        yield c
