"""C05 - ill-formed text is rejected, never silently truncated.

Engine E2: (a) every token sequence of length <= k over the 18-token alphabet,
(b) every reference document of a small family x every token-level damage
sequence (delete, duplicate, swap, replace, truncate) up to a deviation bound.
Each sequence is rendered with single spaces and run on the five loaders; the
reference grammar R2 (mc/lib/refgrammar.py) classifies it independently:
  ILL   -> the loader must raise LexerError or ParseError (the default/ISIS
           loaders may instead return the tree R2 gives under exactly the
           missing-value tolerance of C08);
  WELL  -> a returned module must equal the reference tree (nothing missing
           or altered);
  UNSPEC-> nothing is demanded here (C06 still demands totality).
Coverage is accounted on the reference automaton: distinct (verdict class,
diagnosis) outcomes and sequences replayed on the implementation.
"""
import itertools

from ..runner import Acc
from ..lib import impl, loaders, tokens, refgrammar as R

LEVEL = "model_checking"

T = tokens


def docs():
    """Well-formed base documents for the damage exploration (every statement
    shape, nesting 2, sequences, sets, units, end names, delimiters)."""
    a1 = [T.A, T.EQ, T.ONE]
    return [
        a1 + [T.B, T.EQ, T.QS, T.END],
        [T.A, T.EQ, T.LP, T.ONE, T.COMMA, T.QS, T.RP, T.SEMI, T.B, T.EQ, T.ONE, T.UNITS],
        [T.GROUP, T.EQ, T.A] + a1 + [T.END_GROUP, T.EQ, T.A, T.END],
        [T.OBJECT, T.EQ, T.B, T.GROUP, T.EQ, T.A] + a1 + [T.END_GROUP, T.END_OBJECT, T.EQ, T.B],
        [T.A, T.EQ, T.LB, T.ONE, T.COMMA, T.ONE, T.RB, T.GROUP, T.EQ, T.B, T.B, T.EQ, T.A, T.SEMI,
         T.END_GROUP, T.SEMI, T.END, T.A],
        [T.A, T.EQ, T.LP, T.LP, T.ONE, T.RP, T.COMMA, T.LB, T.QS, T.RB, T.RP, T.COMMENT, T.B, T.EQ, T.B],
        [T.OBJECT, T.EQ, T.A, T.B, T.EQ, T.ONE, T.UNITS, T.SEMI, T.OBJECT, T.EQ, T.B] + a1 +
        [T.END_OBJECT, T.EQ, T.B, T.END_OBJECT, T.EQ, T.A, T.SEMI, T.END, T.SEMI],
        # documents that already use the default loader's missing-value tolerance (ill-formed for
        # the strict parsers): damage is explored from these non-initial parser states too
        [T.B, T.EQ, T.ONE, T.GROUP, T.EQ, T.A, T.A, T.EQ, T.B, T.EQ, T.ONE, T.END_GROUP, T.B, T.EQ, T.QS],
        [T.A, T.EQ, T.B, T.EQ, T.LP, T.ONE, T.COMMA, T.ONE, T.RP, T.OBJECT, T.EQ, T.B, T.A, T.EQ, T.SEMI,
         T.B, T.EQ, T.END_OBJECT, T.EQ, T.B, T.A, T.EQ, T.END],
    ]


def expectations(seq):
    out = {m: R.verdict(seq, m) for m in ("pvl", "odl", "omni")}
    isis = T.for_dialect(seq, "ISIS")
    if isis != seq:
        out["isis-pvl"] = R.verdict(isis, "pvl")
        out["isis-omni"] = R.verdict(isis, "omni")
    return out


def lexically_damaged(seq):
    return any(t[0] in ("BADQ", "BADU", "BADC") for t in seq)


def judge(acc, seq, payload, compact=False, lines=False):
    text = T.render_lines(seq) if lines else T.render_compact(seq) if compact else T.render(seq)
    ver = expectations(seq)
    if compact:
        payload = dict(payload, compact=True)
    if lines:
        payload = dict(payload, lines=True)
    acc.traces += 1
    order = loaders.dialect_order(text)
    only = payload.get("only_dialect")
    for di, d in enumerate(order):
        if only and d != only and d not in payload.get("prior_dialects", []):
            continue
        mode = T.MODE[d]
        v = ver[mode]
        vo = ver["omni"] if d in ("OMNI", "ISIS") else None
        if d == "ISIS" and "isis-pvl" in ver:
            v, vo = ver["isis-pvl"], ver["isis-omni"]
        r = loaders.outcome(d, text)
        acc.n += 1
        acc.sets["edges"].add((v[0], v[1] if v[0] != "WELL" else "", d))
        if r[0] not in ("ok", "doc"):
            acc.outcomes["not-total(C06)"] += 1
            continue               # C06's business
        if v[0] == "UNSPEC":
            acc.outcomes["unspecified"] += 1
            continue
        case = {"tokens": [t[1] for t in seq], "dialect": d, "prior_dialects": order[:di]}
        case.update({k: v for k, v in payload.items() if k not in ("only_dialect", "prior_dialects")})
        if v[0] == "WELL":
            if r[0] == "doc":
                # rejecting well-formed text is C03's business, not C05's
                acc.outcomes["well-rejected(C03)"] += 1
                continue
            got = T.loose(r[1])
            want = T.tree_canon(v[1])
            if got != want:
                acc.outcomes["violation"] += 1
                acc.violation(case, "statements-missing-or-altered:" + d,
                              "text %r: reference tree %r, loader returned %r" % (text, want, got),
                              sig="%s|altered|%s" % (d, text))
            else:
                acc.nontrivial += 1
                acc.outcomes["well-equal"] += 1
            continue
        # ILL
        if r[0] == "doc":
            acc.nontrivial += 1
            acc.outcomes["ill-rejected"] += 1
            continue
        if vo is not None and vo[0] == "WELL" and R.has_empty(vo[1]):
            # the only extra tolerance: missing value after '='
            if T.loose(r[1]) == T.tree_canon(vo[1]):
                acc.nontrivial += 1
                acc.outcomes["ill-tolerated-missing-value"] += 1
                continue
            acc.outcomes["violation"] += 1
            acc.violation(case, "tolerated-text-altered:" + d,
                          "text %r: tolerated tree %r, loader returned %r"
                          % (text, T.tree_canon(vo[1]), T.loose(r[1])),
                          sig="%s|tolerated-altered|%s" % (d, text))
            continue
        if vo is not None and vo[0] == "UNSPEC":
            acc.outcomes["unspecified"] += 1
            continue
        acc.outcomes["violation"] += 1
        acc.violation(case, "ill-formed-accepted:%s:%s" % (v[1], d),
                      "text %r is ill-formed (%s) but the loader returned %r" % (text, v[1], T.loose(r[1])),
                      sig="%s|%s|%s" % (d, v[1], text))


def shard_seq(spec):
    alpha, n, prefix = spec
    acc = Acc()
    for tup in itertools.product(alpha, repeat=n - len(prefix)):
        seq = list(prefix) + list(tup)
        judge(acc, seq, {"kind": "sequence"})
        if lexically_damaged(seq):
            # what an unterminated lexeme swallows depends on how the text ends
            judge(acc, seq, {"kind": "sequence"}, lines=True)
    acc.sample({"tokens": T.render(list(prefix)), "length": n}, cap=1)
    return acc


PREFIXES = [
    # the parser is not in its initial state: a header comment and a complete statement have been read
    [T.COMMENT, T.A, T.EQ, T.QS],
    [T.COMMENT, T.B, T.EQ, T.ONE, T.SEMI],
    [T.GROUP, T.EQ, T.A, T.COMMENT, T.B, T.EQ, T.QS],
]


def shard_prefixed(spec):
    """every short token sequence after a fixed prefix (non-initial parser states)"""
    pi, first = spec
    prefix = PREFIXES[pi]
    acc = Acc()
    for n in (0, 1, 2):
        for tup in itertools.product(T.ALPHABET23, repeat=n):
            seq = prefix + [first] + list(tup)
            judge(acc, seq, {"kind": "sequence"})
            judge(acc, seq, {"kind": "sequence"}, compact=True)
    acc.sample({"prefix": T.render(prefix), "then": first[1]}, cap=1)
    return acc


CORE6 = [T.A, T.B, T.EQ, T.ONE, T.SEMI, T.QS]
BARE_PREFIXES = [[T.A, T.EQ, T.B], [T.B, T.EQ, T.A, T.A, T.EQ, T.QS]]


def shard_after_bare_word(spec):
    """after a statement whose value is a bare word (which could also be a name): every sequence of
    length <= 5 over a six-token core - the repair code of the permissive parser looks back at it"""
    pi, first = spec
    acc = Acc()
    for n in range(0, 5):
        for tup in itertools.product(CORE6, repeat=n):
            judge(acc, BARE_PREFIXES[pi] + [first] + list(tup), {"kind": "sequence"})
    acc.sample({"prefix": T.render(BARE_PREFIXES[pi]), "then": first[1]}, cap=1)
    return acc


def shard_damage(spec):
    di, depth, lo, hi = spec
    base = docs()[di]
    acc = Acc()
    first = T.damage(base, T.ALPHABET23)
    for j, (kind, i, seq) in enumerate(first):
        if not (lo <= j < hi):
            continue
        judge(acc, seq, {"kind": "damage", "doc": di, "damage": [[kind, i]]})
        judge(acc, seq, {"kind": "damage", "doc": di, "damage": [[kind, i]]}, compact=True)
        if lexically_damaged(seq):
            judge(acc, seq, {"kind": "damage", "doc": di, "damage": [[kind, i]]}, lines=True)
        if depth >= 2:
            for kind2, i2, seq2 in T.damage(seq, T.ALPHABET11):
                if kind2 == "rep" and abs(i2 - i) > 3:
                    continue        # second replacement only near the first damage
                judge(acc, seq2, {"kind": "damage", "doc": di, "damage": [[kind, i], [kind2, i2]]})
    acc.sample({"doc": T.render(base), "first_damages": [lo, hi], "depth": depth}, cap=1)
    return acc


STRAY_CHARS = ["\x1c", "\x1d", "\x1e", "\x1f", "\x85", "\xa0", "\u1680", "\u2000", "\u2003", "\u2028", "\u2029",
               "\u202f", "\u205f", "\u3000", "\u200b", "\xad", "\x00", "\x0e", "@", "$", "\\", "?", "`", "^"]
STRAY_TEMPLATES = ["a = 1 {c} b = 1", "a = 1\n{c}\nb = 1\nEND\n", "{c} a = 1", "a = 1 {c}", "a = 1 {c} END",
                   "GROUP = g {c} a = 1 END_GROUP", "GROUP = g a = 1 {c} END_GROUP = g", "a = ( 1 , 2 ) {c} b = 1",
                   "a = \"s\" {c}\n"]


def shard_stray(chars):
    """A token made of one character that is neither PVL white space nor part of
    any construct, standing between statements: a stray token (or a forbidden
    character) - the load must raise either way."""
    acc = Acc()
    for c in chars:
        for tmpl in STRAY_TEMPLATES:
            text = tmpl.replace("{c}", c)
            for d in impl.DIALECTS:
                r = loaders.outcome(d, text)
                acc.n += 1
                acc.traces += 1
                if r[0] == "doc":
                    acc.nontrivial += 1
                    acc.outcomes["ill-rejected"] += 1
                elif r[0] == "ok":
                    acc.outcomes["violation"] += 1
                    acc.violation({"kind": "stray", "text": text, "dialect": d},
                                  "ill-formed-accepted:stray-character:" + d,
                                  "text %r (U+%04X standing alone between statements) loaded as %r"
                                  % (text, ord(c), T.loose(r[1])), sig="%s|stray-char|U+%04X" % (d, ord(c)))
                else:
                    acc.outcomes["not-total(C06)"] += 1
    return acc


def run(ctx):
    acc = Acc()
    q = ctx.quick
    k = 4 if q else 5
    A18 = T.ALPHABET23
    specs = []
    for n in range(1, k + 1):
        if n <= 2:
            specs.append((A18, n, []))
        elif n < k or not q:
            specs += [(A18, n, [a, b]) for a in A18 for b in A18]
        else:
            # quick, longest length: the 21-token alphabet (the two newest damage tokens are covered up
            # to length k-1, after the prefixes and in the damaged documents)
            specs += [(T.ALPHABET21, n, [a, b]) for a in T.ALPHABET21 for b in T.ALPHABET21]
    # longer sequences over the 12-token core
    k11 = 5 if q else 6
    specs += [(T.ALPHABET11, k11, [a, b]) for a in T.ALPHABET11 for b in T.ALPHABET11]
    ctx.pmap(shard_seq, specs, into=acc)
    ctx.pmap(shard_prefixed, [(pi, t) for pi in range(len(PREFIXES)) for t in T.ALPHABET23], into=acc)
    ctx.pmap(shard_after_bare_word, [(pi, t) for pi in range(len(BARE_PREFIXES)) for t in CORE6], into=acc)
    dspecs = []
    for di, base in enumerate(docs()):
        nd = len(T.damage(base, A18))
        step = 40 if not q else 200
        for lo in range(0, nd, step):
            dspecs.append((di, 1 if q else 2, lo, lo + step))
        judge(acc, base, {"kind": "damage", "doc": di, "damage": []})
    ctx.pmap(shard_damage, dspecs, into=acc)
    ctx.pmap(shard_stray, [STRAY_CHARS[i::8] for i in range(8)], into=acc)
    edges = acc.sets["edges"]
    cov = {
        "evaluations": acc.n, "distinct_nontrivial": acc.nontrivial,
        "states": len({(a, b) for a, b, _ in edges}), "transitions": len(edges),
        "traces_validated_against_impl": acc.traces,
        "rule": "all token sequences of length <= %d over the 23-token alphabet (quick: the longest length over 21 of them) (18 well-formed tokens + an unterminated quoted string, one ending in the other quote character, an unterminated units expression, an unterminated comment + BEGIN_GROUP, which is a plain name under the ISIS grammar) and of length %d over a 12-token "
                "core, every sequence of length <= 3 after each of 3 prefixes (header comment + complete statement: non-initial parser states; spaced and compact), every sequence of length <= 5 over a 6-token core after a statement whose value is a bare word, plus %d reference documents x all single%s token damages (delete, duplicate, swap, "
                "replace by any alphabet token, truncate); each rendered with single spaces (lexically damaged ones also one token per line with a final line end; damaged documents also without optional white space) and run on 5 loaders; "
                "states = distinct reference verdicts (class, diagnosis), transitions = (verdict, loader) pairs "
                "exercised, traces = sequences replayed on the implementation; non-trivial = the reference "
                "grammar gave a definite verdict and the loader's result was compared with it"
                % (k, k11, len(docs()), "" if q else " and double"),
        "verdict_histogram": dict(acc.outcomes),
        "reference_verdicts": sorted({"%s:%s" % (a, b) for a, b, _ in edges}),
        "samples": acc.samples[:8], "exhaustive": True,
    }
    return {"coverage": cov, "violations": acc.violations, "violations_total": acc.vio_total,
            "assumptions": ["the reference grammar R2 (mc/lib/refgrammar.py) is trusted; constructs neither "
                            "specification settles (empty block, empty ODL sequence, "
                            "a set nested in an ODL set, stray ';') are UNSPECIFIED and never alarm",
                            "single-space layout (layout is C04's business)",
                            "ISIS is OmniParser+ISISGrammar as pvl_validate defines it and is granted the same "
                            "missing-value tolerance as the default loader"]}


def _seq_from(case):
    by_text = {t[1]: t for t in T.ALPHABET23}
    return [by_text[x] for x in case["tokens"]]


def replay(case):
    acc = Acc()
    if case.get("kind") == "stray":
        r = loaders.outcome(case["dialect"], case["text"])
        if r[0] == "ok":
            return [{"case": case, "diagnosis": "ill-formed-accepted:stray-character:" + case["dialect"],
                     "detail": "loaded as %r" % (T.loose(r[1]),)}]
        return []
    seq = _seq_from(case)
    keep = loaders.impl.DIALECTS
    judge(acc, seq, {k: v for k, v in case.items() if k not in ("tokens", "dialect", "compact", "lines")},
          compact=bool(case.get("compact")), lines=bool(case.get("lines")))
    return [v for v in acc.violations if v["case"]["dialect"] == case["dialect"]]


def candidates(case):
    if "tokens" not in case:
        return
    toks = case["tokens"]
    for i in range(len(toks)):
        c = {"tokens": toks[:i] + toks[i + 1:], "dialect": case["dialect"], "kind": "sequence"}
        if case.get("compact"):
            c["compact"] = True
        yield c
