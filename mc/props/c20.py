"""C20 - the command-line tools are faithful front ends of the library.

Differential exploration, in process (main(argv), stdout captured).  File
alphabet: generated labels (good, missing value, duplicate names, zoned
times, float set, unterminated sequence, units, '#' comment, lower-case
keywords, binary tail, values JSON cannot hold, ...) plus corpus files.
pvl_translate: every file x every output format (to stdout and to a file):
the output equals dumps(load(file), encoder=<fresh encoder of that format>);
for JSON, json.loads(out, object_pairs_hook=list) equals the label's nested
(name, value) pairs; the tool fails exactly when the library call fails.
pvl_validate: every single file, every ordered pair and (thorough) triple of
files per invocation: each cell says loads / encodes exactly when a FRESH
parser / encoder of that dialect row loads / encodes; a report line exists for
every file.
"""
import contextlib
import glob
import io
import itertools
import json
import os
import shutil
import tempfile

from ..runner import Acc
from ..lib import impl

LEVEL = "exploration"

FILES = {
    "good.lbl": b"a = 1\nb = \"x y\"\nGROUP = g\n  c = (1, 2)\nEND_GROUP = g\nEND\n",
    "missing.lbl": b"a =\nb = 2\nc =\nEND\n",
    "dupes.lbl": b"a = 1\na = 2\nOBJECT = a\n  a = 3\n  a = 4\nEND_OBJECT\na = 5\nEND\n",
    "zoned.lbl": b"t = 12:00:00+01:30\nu = 2001-01-01T12:00:00Z\nd = 2001-02-03\nEND\n",
    "floatset.lbl": b"s = {1.5, 2.5}\nt = {a, b}\nEND\n",
    "unterminated.lbl": b"a = (1, 2\nb = 3\n",
    "units.lbl": b"q = 1.5 <m/s>\nr = (1 <m>, 2 <s>)\nk = abc <m>\nEND\n",
    "hash.lbl": b"# a comment\na = 1 # trailing\nb = 2\nEND\n",
    "lower.lbl": b"group = g\n  a = b+c\nend_group\nobject = o\n  x = null\nend_object\nend\n",
    "binarytail.lbl": b"a = 1\nb = 'q'\nEND\n\xff\xfe\x00\x01\x80binary" + b"\x00\xff" * 300,
    "groupsonly.lbl": b"GROUP = g\n  a = 1\nEND_GROUP\nGROUP = g\n  ^p = 5\nEND_GROUP\nEND\n",
    "longname.lbl": b"a_very_long_parameter_name_of_more_than_30 = 1\nbad-name = 2\nEND\n",
    "empty.lbl": b"",
    "strings.lbl": b"a = \"it's\"\nb = 'say \"hi\"'\nc = NULL\nd = \"END\"\ne = \"multi\n  line\"\nEND\n",
    "garbage.lbl": b"= = ( }\n",
    "leap.lbl": b"t = 23:59:60\nEND\n",
    # a UTF-8 byte order mark in front of the label
    "bom.lbl": b"\xef\xbb\xbfa = 1\nb = 2\nEND\n",
    # names that are also shell patterns matching a neighbour with another verdict
    "frame[2].lbl": b"a = 1\nEND\n", "frame2.lbl": b"= = ( }\n",
    "star*.lbl": b"= = (\n", "starx.lbl": b"a = 1\nEND\n",
    "q?.lbl": b"s = {1.5}\nEND\n", "qa.lbl": b"t = 12:00+01\nEND\n",
    # loads everywhere, but the ODL-family encoders refuse the units (with TypeError, not ValueError)
    "oddunits.lbl": b"r = 1.5 <W*m**-2*sr**-1>\np = 1 <%>\nEND\n",
    # loads everywhere, values some encoders refuse
    "refused.lbl": b"s = {(1, 2)}\nk = ((1, 2), ((3)))\nq = abc <m>\nEND\n",
    # a byte that is not UTF-8 inside the label text
    "latin1.lbl": b'a = "caf\xe9"\nb = 1\nEND\n',
    "latin1comment.lbl": b'/* \xb0 */\na = 1\nEND\n',
    # a line that reads END without being the End Statement
    "endline.lbl": b'a = "first\nEND\nlast"\n/* not the\nEND;\n*/\nb = 2\nEND\n',
    "crlf.lbl": b"a = 1\r\nb = abc-\r\n  def\r\nGROUP = g\r\n  c = 2\r\nEND_GROUP\r\nEND\r\n",
    "odlonly.lbl": b"a = 2#-0101#\nb = 12:00+01:30\nc = 16#-7F#\nEND\n",
    # strings whose need for quotes depends on which decoder the encoder is paired with
    "stringy.lbl": b'a = "12:00:00+01"\nb = "2001-01-01T12:00:00+01:00"\nc = "16#-7F#"\nd = "a+b"\ne = "NULL"\n'
                   b'f = "1.5"\ng = "inf"\nh = "-16#7F#"\ni = "23:59:60"\nj = "END"\nk = "2001-366"\nEND\n',
}
FORMATS = ["PDS3", "ODL", "ISIS", "PVL", "JSON"]
ROWS = ["PDS3", "ODL", "PVL", "ISIS", "Omni"]


def corpus_pick():
    root = os.path.join(impl.REPO, "tests", "data")
    fs = sorted(glob.glob(os.path.join(root, "**", "*.lbl"), recursive=True) +
                glob.glob(os.path.join(root, "*.txt")))
    return fs[:: max(1, len(fs) // 6)][:7]


def setup_files(tmpdir):
    paths = {}
    for name, data in FILES.items():
        p = os.path.join(tmpdir, name)
        with open(p, "wb") as f:
            f.write(data)
        paths[name] = p
    for f in corpus_pick():
        name = "corpus_" + os.path.basename(f)
        shutil.copy(f, os.path.join(tmpdir, name))
        paths[name] = os.path.join(tmpdir, name)
        # one single-fault variant of it: truncated in the middle
        data = open(f, "rb").read()
        cut = os.path.join(tmpdir, "cut_" + os.path.basename(f))
        with open(cut, "wb") as g:
            g.write(data[: len(data) // 2])
        paths["cut_" + os.path.basename(f)] = cut
    return paths


def call_tool(fn, argv):
    out, err = io.StringIO(), io.StringIO()
    try:
        with contextlib.redirect_stdout(out), contextlib.redirect_stderr(err):
            fn(argv)
        return ("ok", out.getvalue())
    except SystemExit as e:
        return ("exit", e.code, out.getvalue())
    except BaseException as e:  # noqa: BLE001
        return ("raised", type(e).__name__, str(e)[:150])


def fresh_encoder(fmt):
    return {"PDS3": impl.PDSLabelEncoder, "ODL": impl.ODLEncoder, "ISIS": impl.ISISEncoder,
            "PVL": impl.PVLEncoder}[fmt]()


def json_pairs(m):
    def conv(v):
        if isinstance(v, impl.OrderedMultiDict):
            return [[k, conv(x)] for k, x in v]
        if isinstance(v, impl.Quantity):
            return [conv(v.value), conv(v.units)]
        if isinstance(v, (list, tuple)):
            return [conv(x) for x in v]
        return v
    return conv(m)


def unpair(o):
    """json.loads(..., object_pairs_hook=list) gives lists of tuples for objects"""
    if isinstance(o, list):
        return [unpair(x) for x in o]
    if isinstance(o, tuple):
        return [o[0], unpair(o[1])]
    return o


def check_translate(path, fmt, to_file, tmpdir):
    import pvl
    from pvl import pvl_translate
    out = []
    case = {"tool": "translate", "file": os.path.basename(path), "format": fmt, "to_file": to_file}
    # the library side, with fresh objects
    try:
        m = pvl.load(path)                    # THE library call: load the input
        lib = None
        if fmt == "JSON":
            want = json.dumps(m)
        else:
            want = pvl.dumps(m, encoder=fresh_encoder(fmt))
        lib = ("ok", want)
    except Exception as e:  # noqa: BLE001
        lib = ("fail", type(e).__name__)
    argv = ["-of", fmt, path]
    target = os.path.join(tmpdir, "out_%d.txt" % os.getpid())
    if to_file:
        if os.path.exists(target):
            os.unlink(target)
        argv.append(target)
    r = call_tool(pvl_translate.main, argv)
    if to_file:
        # argparse's FileType leaves the handle to the garbage collector
        import gc
        gc.collect()
    if lib[0] == "fail":
        if r[0] == "ok":
            out.append({"case": case, "diagnosis": "translate-succeeds-where-library-fails",
                        "detail": "library: %s" % (lib[1],)})
        return out, "both-fail"
    if r[0] != "ok":
        out.append({"case": case, "diagnosis": "translate-fails-where-library-succeeds", "detail": repr(r)[:200]})
        return out, "violation"
    got = open(target, newline="").read() if to_file else r[1]
    if fmt == "JSON":
        try:
            parsed = unpair(json.loads(got, object_pairs_hook=list))
        except Exception as e:  # noqa: BLE001
            out.append({"case": case, "diagnosis": "translate-json-unparsable", "detail": str(e)[:100]})
            return out, "violation"
        if parsed != json.loads(json.dumps(json_pairs(m))):
            out.append({"case": case, "diagnosis": "translate-json-content",
                        "detail": "label pairs %r, JSON %r" % (json_pairs(m), parsed)})
    elif got != lib[1]:
        out.append({"case": case, "diagnosis": "translate-output-differs",
                    "detail": "tool %r library %r" % (got[:150], lib[1][:150])})
    return out, ("ok" if not out else "violation")


def fresh_row(name):
    g, d = impl.make_grammar_decoder("OMNI" if name == "Omni" else name)
    parser = {"PDS3": impl.ODLParser, "ODL": impl.ODLParser, "PVL": impl.PVLParser,
              "ISIS": impl.OmniParser, "Omni": impl.OmniParser}[name](grammar=g, decoder=d)
    enc = {"PDS3": impl.PDSLabelEncoder, "ODL": impl.ODLEncoder, "PVL": impl.PVLEncoder,
           "ISIS": impl.ISISEncoder, "Omni": impl.PVLEncoder}[name](grammar=g, decoder=d)
    return parser, enc


def expected_cells(path):
    import pvl
    text = pvl.get_text_from(path)
    cells = {}
    for row in ROWS:
        parser, enc = fresh_row(row)
        try:
            m = parser.parse(text)
            loads = True
        except Exception:  # noqa: BLE001
            loads, m = False, None
        encodes = None
        if loads:
            try:
                enc.encode(m)
                encodes = True
            except Exception:  # noqa: BLE001
                encodes = False
        cells[row] = (loads, encodes)
    return cells


def parse_report(text, files):
    """-> {file: {row: (loads, encodes)}} or None"""
    lines = [ln for ln in text.splitlines() if ln.strip()]
    res = {}
    if len(files) == 1:
        cells = {}
        for ln in lines:
            parts = [p.strip() for p in ln.split("|")]
            if len(parts) == 3 and parts[0] in ROWS:
                loads = {"Loads": True, "does NOT load": False}.get(parts[1])
                enc = {"Encodes": True, "does NOT encode": False, "": None}.get(parts[2], "?")
                cells[parts[0]] = (loads, enc)
        res[files[0]] = cells
        return res
    header = None
    for ln in lines:
        parts = [p.strip() for p in ln.split("|")]
        if parts and parts[0] == "File":
            header = parts[1:]
            continue
        if header and len(parts) == len(header) + 1 and not set(ln) <= set("-+ "):
            cells = {}
            for row, c in zip(header, parts[1:]):
                if c.startswith("No L"):
                    loads, rest = False, c[4:].strip()
                elif c.startswith("L"):
                    loads, rest = True, c[1:].strip()
                else:
                    loads, rest = None, c
                enc = {"E": True, "No E": False, "": None}.get(rest, "?")
                cells[row] = (loads, enc)
            res[parts[0]] = cells
    return res


def check_validate(paths, flags=()):
    from pvl import pvl_validate
    out = []
    case = {"tool": "validate", "files": [os.path.basename(p) for p in paths], "flags": list(flags)}
    r = call_tool(pvl_validate.main, list(flags) + list(paths))
    if r[0] != "ok":
        out.append({"case": case, "diagnosis": "validate-does-not-complete", "detail": repr(r)[:200]})
        return out, "violation"
    rep = parse_report(r[1], list(paths))
    for p in paths:
        want = expected_cells(p)
        got = rep.get(p)
        if not got:
            out.append({"case": case, "diagnosis": "validate-no-report-line",
                        "detail": "no line for %s in %r" % (os.path.basename(p), r[1][:200])})
            continue
        for row in ROWS:
            if got.get(row) != want[row]:
                out.append({"case": case, "diagnosis": "validate-cell-wrong:" + row,
                            "detail": "%s: report says (loads, encodes) = %r, fresh %s parser/encoder give %r"
                                      % (os.path.basename(p), got.get(row), row, want[row])})
    return out, ("ok" if not out else "violation")


def shard(spec):
    kind, payload = spec
    acc = Acc()
    tmpdir = tempfile.mkdtemp(prefix="c20_")
    try:
        paths = setup_files(tmpdir)
        names = sorted(paths)
        if kind == "translate":
            for name in payload:
                for fmt in FORMATS:
                    for to_file in (False, True):
                        vs, status = check_translate(paths[name], fmt, to_file, tmpdir)
                        acc.n += 1
                        acc.outcomes["translate-" + status] += 1
                        _record(acc, vs)
        else:
            for combo in payload:
                flagsets = [()] if len(combo) > 2 else [(), ("-v",), ("-vv",)]
                for flags in flagsets:
                    vs, status = check_validate([paths[n] for n in combo], flags)
                    acc.n += 1
                    acc.outcomes["validate-" + status] += 1
                    _record(acc, vs)
        acc.sample({"kind": kind, "first": payload[0] if payload else None, "files": names[:3]}, cap=1)
    finally:
        shutil.rmtree(tmpdir, ignore_errors=True)
    return acc


def _record(acc, vs):
    if vs:
        for v in vs[:3]:
            c = v["case"]
            acc.violation(c, v["diagnosis"], v["detail"],
                          sig="%s|%s|%s" % (v["diagnosis"], c.get("file") or ",".join(c.get("files", [])),
                                            c.get("format", "")))
    else:
        acc.nontrivial += 1


def all_names():
    tmpdir = tempfile.mkdtemp(prefix="c20_")
    try:
        return sorted(setup_files(tmpdir))
    finally:
        shutil.rmtree(tmpdir, ignore_errors=True)


def run(ctx):
    names = all_names()
    specs = [("translate", names[i::16]) for i in range(16) if names[i::16]]
    combos = [(n,) for n in names]
    small = [n for n in names if not n.startswith(("corpus_", "cut_"))]
    pairs = list(itertools.permutations(small if ctx.quick else names, 2))
    if ctx.quick:
        pairs = [p for p in pairs if p[0] in small[:8] or p[1] in small[:3]]
    combos += pairs
    if not ctx.quick:
        combos += list(itertools.permutations(small, 3))
    specs += [("validate", combos[i::48]) for i in range(48) if combos[i::48]]
    acc = ctx.pmap(shard, specs)
    cov = {
        "evaluations": acc.n, "distinct_nontrivial": acc.nontrivial,
        "rule": "%d files (%d generated + corpus picks + their truncated variants); pvl_translate: every file x %d "
                "formats x {stdout, output file}; pvl_validate: every single file and %d ordered pairs, each with no flag, -v and -vv%s; every cell of "
                "every report compared with fresh parser/encoder objects; non-trivial = invocation completed (or failed "
                "like the library) and all comparisons agreed"
                % (len(names), len(FILES), len(FORMATS), len(pairs),
                   "" if ctx.quick else " and all ordered triples of the %d generated files" % len(small)),
        "outcome_histogram": dict(acc.outcomes),
        "samples": acc.samples[:6], "exhaustive": True,
    }
    return {"coverage": cov, "violations": acc.violations, "violations_total": acc.vio_total,
            "assumptions": ["the tools are driven in process through main(argv) with stdout captured",
                            "the library call for JSON output is json.dump(load(file))"]}


def replay(case):
    tmpdir = tempfile.mkdtemp(prefix="c20_")
    try:
        paths = setup_files(tmpdir)
        if case["tool"] == "translate":
            return check_translate(paths[case["file"]], case["format"], case["to_file"], tmpdir)[0]
        return check_validate([paths[n] for n in case["files"]], case.get("flags", ()))[0]
    finally:
        shutil.rmtree(tmpdir, ignore_errors=True)
