"""C14 - date and time values keep their type, instant and time-zone meaning.

Engine E6 (field-boundary products), oracle R6 (field-exact temporal
semantics written here, independent of pvl's decoder and of strptime).
Decode: every day of a set of boundary years in both date forms; all 1440
hour:minute pairs; second / fraction / zone boundary sets; date x time x zone
products - through decoder.decode_datetime AND through loads('T = <text>')
(the lexer has its own rule for signs inside a date-time lexeme), in the five
configurations.  Encode: every value of the grid as a Python object through
encode_date / encode_time / encode_datetime of the four encoders; R6 parses
the text written: same fields / same instant at the same precision, or the
encoder refused.
"""
import calendar
import datetime as dt
import re

from ..runner import Acc
from ..lib import impl, loaders, vjson

LEVEL = "exploration"
UTC = dt.timezone.utc

YEARS_Q = [1, 4, 100, 999, 1000, 1900, 2000, 2001, 9999]
YEARS_T = [1, 4, 99, 100, 400, 999, 1000, 1582, 1900, 2000, 2001, 2004, 2100, 9999]
FRACS = [("0", 0), ("1", 100000), ("5", 500000), ("001", 1000), ("010", 10000), ("100", 100000), ("999", 999000),
         ("0001", 100), ("000001", 1), ("999999", 999999), ("123456", 123456), ("1234", 123400), ("12", 120000),
         ("004", 4000), ("040", 40000)]


def zones():
    z = [("", None), ("Z", 0)]
    for s in "+-":
        sg = 1 if s == "+" else -1
        for h in range(0, 13):
            z.append(("%s%02d" % (s, h), sg * h * 60))
            if h < 10:
                z.append(("%s%d" % (s, h), sg * h * 60))
        for h in (0, 5, 9, 12):
            for m in (30, 45):
                z.append(("%s%02d:%02d" % (s, h, m), sg * (h * 60 + m)))
    return z


def dates(years, every_day):
    for y in years:
        leap = calendar.isleap(y)
        days = range(1, 367 if leap else 366)
        for doy in days:
            D = dt.date(y, 1, 1) + dt.timedelta(days=doy - 1)
            if not every_day and not (D.day in (1, 28, 29, 30, 31) or doy in (1, 59, 60, 61, 365, 366, 100)):
                continue
            yield "%04d-%02d-%02d" % (y, D.month, D.day), D
            yield "%04d-%03d" % (y, doy), D


def times(full):
    hm = [(h, m) for h in range(24) for m in range(60)] if full else \
         [(h, m) for h in (0, 1, 9, 10, 12, 23) for m in (0, 1, 9, 10, 59)]
    for h, m in hm:
        yield "%02d:%02d" % (h, m), (h, m, 0, 0)
    for h, m in [(0, 0), (23, 59), (12, 10), (9, 5)]:
        for s in (0, 1, 30, 59):
            yield "%02d:%02d:%02d" % (h, m, s), (h, m, s, 0)
            for f, us in FRACS:
                yield "%02d:%02d:%02d.%s" % (h, m, s, f), (h, m, s, us)


def expect_time(dialect, fields, ztxt, zmin):
    """-> ('value', time) | ('reject',) | ('skip',)"""
    h, m, s, us = fields
    if ztxt not in ("", "Z"):
        if dialect == "PVL":
            return ("skip",)                  # not a PVL date-time; what it is instead is not C14's
        if dialect == "PDS3":
            return ("reject",)
    if dialect == "PDS3" and us % 1000:
        return ("reject",)
    if ztxt == "":
        tz = None if dialect == "ODL" else UTC
        if dialect == "ISIS":
            tz = "any"
    else:
        tz = dt.timezone(dt.timedelta(minutes=zmin)) if zmin else UTC
    return ("value", (h, m, s, us), tz)


def same_time(got, fields, tz, cls):
    if type(got) is not cls:
        return "type %s, expected %s" % (type(got).__name__, cls.__name__)
    if (got.hour, got.minute, got.second, got.microsecond) != tuple(fields):
        return "fields %r, written %r" % ((got.hour, got.minute, got.second, got.microsecond), fields)
    if tz == "any":
        return None
    if tz is None:
        return None if got.tzinfo is None else "zone %r, expected naive" % (got.tzinfo,)
    if got.tzinfo is None:
        return "naive, expected offset %s" % tz.utcoffset(None)
    off = got.utcoffset() if isinstance(got, dt.datetime) else got.tzinfo.utcoffset(None)
    if off != tz.utcoffset(None):
        return "offset %s, expected %s" % (off, tz.utcoffset(None))
    return None


def decode_both(dialect, text):
    """-> list of (route, ('value', v) | ('reject',) | ('bad', name))"""
    out = []
    dec = impl.make_grammar_decoder(dialect)[1]
    try:
        out.append(("decoder", ("value", dec.decode_datetime(text))))
    except ValueError:
        out.append(("decoder", ("reject",)))
    except Exception as e:  # noqa: BLE001
        out.append(("decoder", ("bad", type(e).__name__)))
    for route, tmpl, pick in (("loads", "T = %s\n", lambda m: m["T"]),
                              ("loads-in-sequence", "S = (1, %s)\nU = {%s}\nEND\n", None)):
        if route == "loads-in-sequence":
            if (sum(ord(c) for c in text) % 5) and not text.startswith(("23:59", "2001-01-01T")):
                continue          # the sequence/set route on a fixed fifth of the texts (and two families fully)
            r = loaders.outcome(dialect, tmpl % (text, text))
        else:
            r = loaders.outcome(dialect, tmpl % text)
        if r[0] == "ok":
            items = list(r[1])
            try:
                if route == "loads":
                    ok = len(items) == 1 and items[0][0] == "T"
                    v = items[0][1] if ok else items
                else:
                    s_, u_ = dict(items)["S"], dict(items)["U"]
                    ok = isinstance(s_, list) and len(s_) == 2 and len(u_) == 1 and list(u_)[0] == s_[1]
                    v = s_[1] if ok else items
            except Exception:  # noqa: BLE001
                ok, v = False, items
            if ok:
                out.append((route, ("value", v) if isinstance(v, (dt.date, dt.time)) else ("nottemporal", v)))
            else:
                out.append((route, ("nottemporal", v)))
        elif r[0] == "doc":
            out.append((route, ("reject",)))
        else:
            out.append((route, ("bad", loaders.brief(r))))
    return out


def judge_decode(acc, dialect, text, exp, what):
    """exp: ('date', D) | ('time', fields, tz) | ('datetime', D, fields, tz) | ('reject',) | ('leaptext',)"""
    for route, got in decode_both(dialect, text):
        acc.n += 1
        case = {"dir": "decode", "dialect": dialect, "text": text, "route": route}
        prob = None
        if got[0] == "bad":
            prob = "raised %s" % got[1]
        elif exp[0] == "reject":
            if got[0] == "value":
                prob = "accepted as %r, the dialect rejects it" % (got[1],)
            # loads may also hand it back as something non-temporal only if it raised; 'nottemporal' = accepted
            elif got[0] == "nottemporal":
                prob = "accepted as %r, the dialect rejects it" % (got[1],)
        elif exp[0] == "leaptext":
            if route == "decoder":
                if not (got[0] == "value" and isinstance(got[1], str) and str(got[1]) == text):
                    prob = "expected the identical text, got %r" % (got,)
            else:
                if not (got[0] == "nottemporal" and isinstance(got[1], str) and str(got[1]) == text):
                    prob = "expected the identical text, got %r" % (got,)
        else:
            if got[0] != "value":
                prob = "not decoded (%s)" % (got[0],)
            elif exp[0] == "date":
                v = got[1]
                if type(v) is not dt.date or v != exp[1]:
                    prob = "got %r, written date %s" % (v, exp[1])
            elif exp[0] == "time":
                prob = same_time(got[1], exp[1], exp[2], dt.time)
            elif exp[0] == "datetime":
                v = got[1]
                if type(v) is not dt.datetime or (v.year, v.month, v.day) != (exp[1].year, exp[1].month, exp[1].day):
                    prob = "got %r, written date %s" % (v, exp[1])
                else:
                    prob = same_time(v, exp[2], exp[3], dt.datetime)
        if prob:
            acc.outcomes["violation"] += 1
            acc.violation(case, "decode-%s:%s" % (what, dialect), "%r via %s: %s" % (text, route, prob),
                          sig="decode|%s|%s|%s|%s" % (dialect, what, route, _shape(text)))
        else:
            acc.nontrivial += 1
            acc.outcomes["decode-" + exp[0]] += 1


def _shape(text):
    return re.sub(r"\d", "9", text)


def shard_decode(spec):
    kind, dialect, part, nparts, thorough = spec
    acc = Acc()
    Z = zones()
    j = 0
    if kind == "dates":
        for txt, D in dates(YEARS_T if thorough else YEARS_Q, thorough):
            j += 1
            if j % nparts == part:
                judge_decode(acc, dialect, txt, ("date", D), "date")
    elif kind == "times":
        for ttxt, fields in times(True):
            j += 1
            if j % nparts != part:
                continue
            zs = Z if (fields[1] % 20 == 0 and fields[0] % 6 == 0 or fields[3] % 1000 or thorough) else Z[:3] + Z[-2:]
            for ztxt, zmin in zs:
                e = expect_time(dialect, fields, ztxt, zmin)
                if e[0] == "skip":
                    continue
                exp = ("reject",) if e[0] == "reject" else ("time", e[1], e[2])
                judge_decode(acc, dialect, ttxt + ztxt, exp, "time")
    elif kind == "datetimes":
        dsel = [x for i, x in enumerate(dates(YEARS_Q, False)) if i % 17 == 0 or thorough]
        tsel = [x for i, x in enumerate(times(False)) if i % 9 == 0]
        for dtxt, D in dsel:
            for ttxt, fields in tsel:
                j += 1
                if j % nparts != part:
                    continue
                for ztxt, zmin in Z[::5] + [Z[1]]:
                    e = expect_time(dialect, fields, ztxt, zmin)
                    if e[0] == "skip":
                        continue
                    exp = ("reject",) if e[0] == "reject" else ("datetime", D, e[1], e[2])
                    judge_decode(acc, dialect, dtxt + "T" + ttxt + ztxt, exp, "datetime")
    elif kind == "leap":
        # every dialect inside one process, in both orders (dialect names the first one): a value
        # remembered by one decoder class must not be handed out by another
        if part == 0:
            order = list(impl.DIALECTS)
            if dialect in ("ODL", "ISIS"):
                order.reverse()
            for txt in ("23:59:60", "23:59:60Z", "23:59:60.5", "00:00:60", "2016-12-31T23:59:60", "2016-366T23:59:60Z",
                        "2016-12-31T23:59:60.123Z", "0001-01-01T00:00:60", "12:00+01", "12:00:00.1234", "12:00"):
                leap = ":60" in txt
                for d in order:
                    if leap and d == "PVL":
                        judge_decode(acc, d, txt, ("leaptext",), "leap-second")
                    elif leap and d in ("ODL", "PDS3"):
                        judge_decode(acc, d, txt, ("reject",), "leap-second")
                    elif not leap and d == "PDS3" and txt != "12:00":
                        judge_decode(acc, d, txt, ("reject",), "time")
                    elif not leap and d == "ODL" and txt == "12:00":
                        judge_decode(acc, d, txt, ("time", (12, 0, 0, 0), None), "time")
                    else:
                        decode_both(d, txt)          # only to put the text through this dialect's classes
                for v in acc.violations:
                    v["case"].setdefault("order", order)
    acc.sample({"kind": kind, "dialect": dialect}, cap=1)
    return acc


# ------------------------------------------------------------------ encode side

DATE_RE = re.compile(r"(\d{4})-(\d{2})-(\d{2})$")
DOY_RE = re.compile(r"(\d{4})-(\d{3})$")
TIME_RE = re.compile(r"(\d{2}):(\d{2})(?::(\d{2})(?:\.(\d{1,6}))?)?(Z|[+-]\d{1,2}(?::\d{2})?)?$")


def r6_date(s):
    m = DATE_RE.match(s)
    if m:
        return dt.date(int(m.group(1)), int(m.group(2)), int(m.group(3)))
    m = DOY_RE.match(s)
    if m:
        return dt.date(int(m.group(1)), 1, 1) + dt.timedelta(days=int(m.group(2)) - 1)
    raise ValueError("not a date: %r" % s)


def r6_time(s):
    """-> (h, m, s, us, offset minutes or None)"""
    m = TIME_RE.match(s)
    if not m:
        raise ValueError("not a time: %r" % s)
    us = int((m.group(4) or "0").ljust(6, "0"))
    z = m.group(5)
    if z is None:
        off = None
    elif z == "Z":
        off = 0
    else:
        sg = -1 if z[0] == "-" else 1
        hh, _, mm = z[1:].partition(":")
        off = sg * (int(hh) * 60 + int(mm or 0))
    return int(m.group(1)), int(m.group(2)), int(m.group(3) or 0), us, off


def instant_of_time(h, m, s, us, off):
    total = ((h * 60 + m) * 60 + s) * 1000000 + us - (off or 0) * 60 * 1000000
    return total % (24 * 3600 * 1000000)


class SubDateTime(dt.datetime):
    """what other libraries hand out: subclasses of the standard types (pandas.Timestamp, ...)"""


class SubDate(dt.date):
    pass


class SubTime(dt.time):
    pass


def as_subclass(v):
    if isinstance(v, dt.datetime):
        return SubDateTime(v.year, v.month, v.day, v.hour, v.minute, v.second, v.microsecond, tzinfo=v.tzinfo)
    if isinstance(v, dt.date):
        return SubDate(v.year, v.month, v.day)
    return SubTime(v.hour, v.minute, v.second, v.microsecond, tzinfo=v.tzinfo)


def judge_encode(acc, encname, value, route="method"):
    """route 'method': encode_date / encode_time / encode_datetime called directly; 'value': through the
    encoder's own dispatch on the value's type (encode_value), as a dump does; 'subclass': the same with an
    instance of a subclass of the standard type"""
    enc = impl.make_encoder(encname)
    acc.n += 1
    case = {"dir": "encode", "encoder": encname, "value": vjson.enc(value), "route": route}
    default_zone = None if encname == "ODL" else 0
    try:
        if route != "method":
            text = enc.encode_value(as_subclass(value) if route == "subclass" else value)
        elif isinstance(value, dt.datetime):
            text = enc.encode_datetime(value)
        elif isinstance(value, dt.date):
            text = enc.encode_date(value)
        else:
            text = enc.encode_time(value)
    except (ValueError, TypeError):
        acc.outcomes["encode-refused"] += 1
        return
    except Exception as e:  # noqa: BLE001
        acc.violation(case, "encode-raised:" + encname, "%r: %s: %s" % (value, type(e).__name__, e),
                      sig="encode|%s|raised|%s" % (encname, type(value).__name__))
        return
    prob = None
    try:
        if isinstance(value, dt.datetime):
            dpart, _, tpart = text.partition("T")
            D = r6_date(dpart)
            h, m, s, us, off = r6_time(tpart)
            if off is None:
                off = default_zone
            if value.tzinfo is None:
                if (D, h, m, s, us) != (value.date(), value.hour, value.minute, value.second, value.microsecond):
                    prob = "fields differ"
            else:
                if off is None:
                    prob = "zone lost: text has no zone and the dialect has no default"
                else:
                    written = dt.datetime(D.year, D.month, D.day, h, m, s, us,
                                          tzinfo=dt.timezone(dt.timedelta(minutes=off)))
                    if written != value:
                        prob = "denotes %s, value is %s" % (written.isoformat(), value.isoformat())
        elif isinstance(value, dt.date):
            if r6_date(text) != value:
                prob = "denotes %s" % r6_date(text)
        else:
            h, m, s, us, off = r6_time(text)
            if off is None:
                off = default_zone
            if value.tzinfo is None:
                if (h, m, s, us) != (value.hour, value.minute, value.second, value.microsecond):
                    prob = "fields differ"
            else:
                if off is None:
                    prob = "zone lost: text has no zone and the dialect has no default"
                else:
                    voff = int(value.tzinfo.utcoffset(None).total_seconds() // 60)
                    if instant_of_time(h, m, s, us, off) != instant_of_time(
                            value.hour, value.minute, value.second, value.microsecond, voff):
                        prob = "denotes another time of day (text offset %+d min, value offset %+d min)" % (off, voff)
    except ValueError as e:
        prob = "text is not a date/time of the dialect: %s" % e
    if prob:
        acc.outcomes["violation"] += 1
        acc.violation(case, "encode-changes-meaning:" + encname, "%r written (route: %s) as %r: %s" % (value, route, text, prob),
                      sig="encode|%s|%s|%s|%s" % (encname, type(value).__name__, _shape(text), route))
    else:
        acc.nontrivial += 1
        acc.outcomes["encode-ok"] += 1


def encode_values(thorough):
    tzs = [None, UTC] + [dt.timezone(dt.timedelta(minutes=m)) for m in
                         (60, -60, 330, -330, 720, -720, 45, -45, 5 * 60, -9 * 60)]
    for y in (1, 9, 99, 999, 1000, 2001, 9999):
        for mo, d in ((1, 1), (2, 28), (12, 31), (10, 10)):
            yield dt.date(y, mo, d)
    ts = []
    for h, m in ((0, 0), (0, 30), (1, 2), (12, 0), (23, 59), (23, 30), (9, 5)):
        for s, us in ((0, 0), (3, 0), (59, 0), (3, 4000), (3, 40000), (3, 400000), (3, 123456), (3, 1), (0, 1000),
                      (59, 999999), (59, 999000)):
            ts.append((h, m, s, us))
    for f in ts:
        for tz in tzs:
            yield dt.time(*f, tzinfo=tz)
    for y, mo, d in ((1, 1, 1), (999, 12, 31), (2001, 1, 1), (2000, 2, 29), (9999, 12, 31), (2001, 12, 31)):
        for f in ts[:: (1 if thorough else 4)]:
            for tz in tzs:
                try:
                    yield dt.datetime(y, mo, d, *f, tzinfo=tz)
                except (ValueError, OverflowError):
                    pass


def shard_encode(spec):
    encname, part, nparts, thorough = spec
    acc = Acc()
    for i, v in enumerate(encode_values(thorough)):
        if i % nparts == part:
            judge_encode(acc, encname, v)
            if i % 3 == 0:
                judge_encode(acc, encname, v, "value")
                judge_encode(acc, encname, v, "subclass")
    acc.sample({"encoder": encname}, cap=1)
    return acc


def run(ctx):
    acc = Acc()
    th = not ctx.quick
    specs = []
    for d in impl.DIALECTS:
        specs += [("dates", d, p, 4, th) for p in range(4)]
        specs += [("times", d, p, 8, th) for p in range(8)]
        specs += [("datetimes", d, p, 8, th) for p in range(8)]
        specs.append(("leap", d, 0, 1, th))
    ctx.pmap(shard_decode, specs, into=acc)
    ctx.pmap(shard_encode, [(e, p, 4, th) for e in impl.ENCODERS for p in range(4)], into=acc)
    cov = {
        "evaluations": acc.n, "distinct_nontrivial": acc.nontrivial,
        "rule": "decode: %s days of years %r in both date forms, all 1440 hour:minute pairs, seconds {0,1,30,59} x %d "
                "fraction spellings, %d zone spellings (none, Z, every whole hour -12..+12 in 1- and 2-digit form, "
                "half and three-quarter hours with ':'), date x time x zone products, leap-second texts; each through "
                "decoder.decode_datetime and loads('T = ...') in 5 configurations; encode: %d date/time/datetime "
                "objects (years 1..9999, micro/millisecond boundaries, 12 zones incl. naive) x 4 encoders (encode_date/time/datetime directly; every third value also through the encoder's own type dispatch, as itself and as an instance of a subclass of the standard type), output "
                "re-read by an independent field parser; non-trivial = a definite expectation was compared"
                % ("all" if th else "boundary", YEARS_T if th else YEARS_Q, len(FRACS), len(zones()),
                   len(list(encode_values(th)))),
        "outcome_histogram": dict(acc.outcomes),
        "samples": acc.samples[:6], "exhaustive": True,
    }
    return {"coverage": cov, "violations": acc.violations, "violations_total": acc.vio_total,
            "assumptions": ["field widths other than the specified ones (2001-1-1) and a 'Z' after a bare date are not "
                            "claimed by the property (UNSPECIFIED)",
                            "a zone offset after a PVL time is not a PVL date-time: what it becomes is not demanded",
                            "the ISIS configuration's zone for an unmarked time is not stated by the property: only "
                            "type and fields are compared there; leap seconds are demanded for PVL (text) and "
                            "ODL/PDS3 (reject) only",
                            "dateutil is absent: OmniDecoder's ISO fallback is not exercised"]}


def replay(case):
    acc = Acc()
    if case.get("order"):
        for d in case["order"]:
            if d == case["dialect"]:
                break
            decode_both(d, case["text"])
    if case["dir"] == "encode":
        judge_encode(acc, case["encoder"], vjson.dec(case["value"]), case.get("route", "method"))
        return acc.violations
    # decode: recompute the expectation from the text
    text, d = case["text"], case["dialect"]
    m = re.match(r"^(?:(\d{4}-\d{2}-\d{2}|\d{4}-\d{3}))?(T)?(?:(\d{2}:\d{2}(?::\d{2}(?:\.\d+)?)?)(Z|[+-].*)?)?$", text)
    if not m:
        return []
    dpart, _, tpart, z = m.groups()
    if tpart and tpart.split(":")[-1].startswith("60"):
        exp = ("leaptext",) if d == "PVL" else ("reject",)
        judge_decode(acc, d, text, exp, "leap-second")
        return [v for v in acc.violations if v["case"]["route"] == case["route"]]
    D = r6_date(dpart) if dpart else None
    if tpart:
        h, mi, s, us, off = r6_time(tpart + (z or ""))
        e = expect_time(d, (h, mi, s, us), z or "", off)
        if e[0] == "skip":
            return []
        if e[0] == "reject":
            exp = ("reject",)
        elif D:
            exp = ("datetime", D, e[1], e[2])
        else:
            exp = ("time", e[1], e[2])
    else:
        exp = ("date", D)
    judge_decode(acc, d, text, exp, exp[0])
    return [v for v in acc.violations if v["case"]["route"] == case["route"]]
