"""C17 - value classification is total, exclusive and shared by reader and writer.

Engine E4 over token texts: every string up to length n over a 23-character
PVL-significant alphabet plus a curated list of borderline texts (keywords in
all letter cases, inf/nan, 1_0, 2001-366, lone signs, the empty string,
Unicode digits, reserved words) x the five grammar/decoder(/encoder) sets.
For each text: the decoder cascade gives the class (or ValueError = not a
value; nothing else may escape); every public Token predicate must answer
without raising and as the class implies; at most one of the class predicates
is true and exactly the matching one for a non-keyword value; a number or
date/time is neither an unquoted string nor a parameter name; the encoder's
encode_string either refuses or writes text that decodes back to the identical
string (folded for the ODL-family decoders when it had to be quoted), and text
written without quotes decodes to itself.  A small set of clear-cut texts
anchors the classes to the specifications.
"""
import datetime as dt
import itertools
import re

from ..runner import Acc
from ..lib import impl

LEVEL = "exploration"

ALPHA23 = "aeEnN1023-+.:#_TZ'\" =/*"
ALPHA14 = "aN1e-+.:#_T'\" "
CURATED = ["", "NULL", "Null", "null", "nUlL", "TRUE", "True", "true", "FALSE", "False", "false", "END", "End",
           "end", "GROUP", "Group", "group", "OBJECT", "object", "END_GROUP", "end_group", "End_Object",
           "BEGIN_GROUP", "begin_object", "inf", "Inf", "-inf", "nan", "NaN", "infinity", "1_0", "1__0", "0x10",
           "0b1", "1e5", "1E5", "1.e5", ".e5", "e5", "1e", "2001-366", "2000-366", "2001-001", "2001-01-01",
           "2001-13-01", "12:00", "12:00:60", "12:00Z", "12:00+01", "24:00", "1:2", "2001-01-01T12:00",
           "2001-01-01T12:00:60Z", "+", "-", "--", "+-1", ".", "..", "#", "2#1#", "2#2#", "16#FF#", "16#fg#",
           "+16#F#", "16#+F#", "+16#+F#", "17#1#", "1#0#", "10#9#", "１２", "١", "²", "a b",
           " ", "a b", " a", "a ", "\t", "a\nb", "\"a\"", "'a'", "\"a", "a\"", "\"\"", "''", "'", "\"", "\"a'",
           "a=b", "a,b", "(a)", "{a}", "<a>", "a;b", "a#b", "a/*b", "a*/b", "/*a*/", "a+b", "+a", "a&b", "a|b",
           "a~b", "a!b", "a%b", "a[b]", "^a", "a:b", "a.b", "a-b", "_a", "a_", "A1_B2", "1a", "a1", "\0", "a\0b",
           "é", "café", "中", "1,5", "1 5", "１", "0001", "-0", "+0.0", "00:00:00.0000001",
           "\xa012", "1.5\xa0", "\x1c7", "7\x85", " 1", "1 ", "\t1", "1\n", "\xa0", "\xa0a", "a\xa0", "\u20281", "1\u3000",
           "Infinity", "INFINITY", "-Infinity", "+inf", "-nan", "+nan", "1e400", "-1e400", "True", "False", "None",
           "12:00:00-01:00", "12:00-01", "2001-01-01T12:00:00+01:00", "12:00:60Z", "2001-01-01Z", "2001-001Z", "12:00z",
           "0#1#", "1#1#", "2#", "#1#", "16##", "2#12#", "8#8#", "16#G#", "36#Z#", "-2#1#", "2#-1#", "--2#1#",
           "a*/", "*/a", "/*a", "a/*", "/**/", "*/", "/*", "a#", "#a", "##"]

KEYWORD, QUOTED, BASED, DECIMAL, DATETIME, UNQUOTED, NOTVALUE = (
    "keyword", "quoted", "based", "decimal", "datetime", "unquoted", "not-a-value")
FOLDING = ("ODL", "PDS3", "ISIS", "OMNI")

_SETS = {}


SETS = tuple(impl.DIALECTS) + ("ISISdef",)     # ISISdef: ISISEncoder()'s own default pairing
# the same five pairings with grammar and decoder built separately (two grammar instances of one class)
SETS += tuple(d + "sep" for d in impl.DIALECTS)


def base_of(d):
    return d[:-3] if d.endswith("sep") else d


def sets_for(d):
    if d not in _SETS:
        if d == "ISISdef":
            g = impl.ISISGrammar()
            dec = impl.PVLDecoder(grammar=g)
            _SETS[d] = (g, dec, impl.ISISEncoder())
            return _SETS[d]
        if d.endswith("sep"):
            g = type(impl.make_grammar_decoder(base_of(d))[0])()
            dec = type(impl.make_grammar_decoder(base_of(d))[1])(grammar=type(g)())
            E = {"PVL": impl.PVLEncoder, "ODL": impl.ODLEncoder, "PDS3": impl.PDSLabelEncoder,
                 "ISIS": impl.ISISEncoder, "OMNI": impl.PVLEncoder}[base_of(d)]
            _SETS[d] = (g, dec, E(grammar=g, decoder=dec))
            return _SETS[d]
        g, dec = impl.make_grammar_decoder(d)
        if d == "OMNI":
            enc = impl.PVLEncoder(grammar=g, decoder=dec)     # the pairing pvl_validate uses
        elif d == "ISIS":
            enc = impl.ISISEncoder(grammar=g, decoder=dec)   # the pairing pvl_validate uses
        else:
            enc = impl.make_encoder(d)
        _SETS[d] = (g, dec, enc)
    return _SETS[d]


def fold(s):
    nodash = re.sub(r"-[\n\r\v\f][ \t\n\r\v\f]*", "", s)
    return re.sub(r"[ \t\n\r\f\v]+", " ", nodash.strip(" \t\n\r\f\v"))


def is_quoted_text(s):
    return len(s) > 1 and s[0] in "\"'" and s[-1] == s[0]


def spec_class(d, s):
    """clear-cut cases only (None = not anchored)"""
    if s.casefold() in ("null", "true", "false"):
        return KEYWORD
    if re.fullmatch(r"[+-]?[0-9]+", s):
        return DECIMAL
    if re.fullmatch(r"[+-]?[0-9]+\.[0-9]+", s):
        return DECIMAL
    if re.fullmatch(r'"[^"]*"', s) or re.fullmatch(r"'[^']*'", s):
        return QUOTED
    if re.fullmatch(r"[A-Za-z][A-Za-z0-9]*", s) and s.casefold() not in (
            "end", "group", "object", "end_group", "end_object", "begin_group", "begin_object",
            "inf", "nan", "infinity", "e"):
        return UNQUOTED
    if s.casefold() in ("end", "end_group", "end_object", "group", "object"):
        return NOTVALUE
    if re.fullmatch(r"[0-9]{4}-[0-9]{2}-[0-9]{2}", s):
        try:
            dt.date(int(s[:4]), int(s[5:7]), int(s[8:]))
            return DATETIME
        except ValueError:
            return None
    return None


def check(d, s):
    g, dec, enc = sets_for(d)
    out = []
    case = {"dialect": d, "text": s}
    setname, d = d, base_of(d)          # the rules are those of the dialect, however it was wired

    def bad(diag, detail):
        out.append({"case": case, "diagnosis": diag + ":" + d, "detail": "%r: %s" % (s, detail)})

    # 1. decoder cascade
    try:
        v = dec.decode_simple_value(s)
        if v is None or isinstance(v, bool):
            cls = KEYWORD
        elif isinstance(v, int):
            cls = BASED if "#" in s else DECIMAL
        elif isinstance(v, (float,)) or type(v).__name__ == "Decimal":
            cls = DECIMAL
        elif isinstance(v, (dt.date, dt.time)):
            cls = DATETIME
        elif isinstance(v, str):
            if is_quoted_text(s):
                cls = QUOTED
            elif dec.is_leap_seconds(s):
                cls = DATETIME
            else:
                cls = UNQUOTED
        else:
            cls = "other:" + type(v).__name__
            bad("decoder-returns-unexpected-type", type(v).__name__)
    except ValueError:
        cls, v = NOTVALUE, None
    except Exception as e:  # noqa: BLE001
        bad("decoder-raises", "%s: %s" % (type(e).__name__, e))
        return out, "crash"
    anchor = spec_class(d, s)
    if anchor is not None and anchor != cls:
        bad("class-differs-from-specification", "decoder says %s, the specification %s" % (cls, anchor))
    # 2. token predicates never raise
    t = impl.Token(s, grammar=g, decoder=dec)
    preds = {}
    for name in ("is_quoted_string", "is_non_decimal", "is_decimal", "is_numeric", "is_datetime",
                 "is_unquoted_string", "is_string", "is_parameter_name", "is_simple_value", "is_WSC", "is_comment",
                 "is_space", "is_delimiter", "is_begin_aggregation", "is_end_statement", "is_quote"):
        try:
            preds[name] = bool(getattr(t, name)())
        except Exception as e:  # noqa: BLE001
            bad("predicate-raises", "%s: %s: %s" % (name, type(e).__name__, e))
            preds[name] = None
    if any(x is None for x in preds.values()):
        return out, cls
    # 3. predicates agree with the class
    if preds["is_simple_value"] != (cls != NOTVALUE):
        bad("is_simple_value-disagrees", "class %s, is_simple_value %s" % (cls, preds["is_simple_value"]))
    classpred = {QUOTED: "is_quoted_string", BASED: "is_non_decimal", DECIMAL: "is_decimal",
                 DATETIME: "is_datetime", UNQUOTED: "is_unquoted_string"}
    true_ones = [c for c, p in classpred.items() if preds[p]]
    if cls in classpred:
        if true_ones != [cls]:
            bad("class-predicates-not-exclusive", "class %s, predicates true for %s" % (cls, true_ones))
    elif cls == NOTVALUE:
        reserved = any(w.casefold() == s.casefold() for w in g.reserved_keywords)
        if true_ones == [UNQUOTED] and reserved:
            pass        # END, GROUP ...: word-shaped; the repository's own tests pin is_unquoted_string() True
                        # for them, and is_parameter_name() excludes them
        elif true_ones == [UNQUOTED] and d in ("ODL", "PDS3") and not dec.is_identifier(s):
            # lexically an unquoted word, but ODL only lets identifiers stand unquoted as a value
            out.append({"case": case, "diagnosis": "predicate-accepts-non-value:" + d,
                        "detail": "%r: is_unquoted_string() is True, the %s decoder says it is not a value "
                                  "(not an ODL identifier)" % (s, d),
                        "sig": "predicate-accepts-non-value|%s|unquoted-word-that-is-not-an-ODL-identifier" % d})
        elif true_ones:
            bad("predicate-accepts-non-value", "not a value, but %s" % (true_ones,))
    elif cls == KEYWORD:
        if [c for c in true_ones if c != UNQUOTED]:
            bad("class-predicates-not-exclusive", "keyword, predicates true for %s" % (true_ones,))
    if preds["is_numeric"] != (preds["is_decimal"] or preds["is_non_decimal"]):
        bad("is_numeric-inconsistent", str(preds))
    if preds["is_string"] != (preds["is_quoted_string"] or preds["is_unquoted_string"]):
        bad("is_string-inconsistent", str(preds))
    if cls in (BASED, DECIMAL, DATETIME) and (preds["is_unquoted_string"] or preds["is_parameter_name"]):
        bad("number-or-date-accepted-as-name", "class %s, is_unquoted_string %s, is_parameter_name %s"
            % (cls, preds["is_unquoted_string"], preds["is_parameter_name"]))
    if preds["is_parameter_name"] and not preds["is_unquoted_string"]:
        bad("parameter-name-not-unquoted-string", "")
    # 4. the writer
    try:
        w = enc.encode_string(s)
    except ValueError:
        w = None
    except Exception as e:  # noqa: BLE001
        bad("encoder-raises", "%s: %s" % (type(e).__name__, e))
        w = None
    if w is not None:
        try:
            back = dec.decode_simple_value(w)
        except ValueError:
            back = ("not-a-value",)
        except Exception as e:  # noqa: BLE001
            back = ("raised", type(e).__name__)
        if w == s:
            want = s
            how = "written without quotes"
        else:
            want = fold(s) if d in FOLDING else s
            how = "written as %r" % w
        if not (isinstance(back, str) and str(back) == want):
            bad("string-does-not-read-back", "%s, reads back as %r" % (how, back))
    return out, cls


def shard(spec):
    """One fresh process per shard; every text is put to all five dialect sets in
    the given order, so that state leaking from one dialect's objects to
    another's (a cache shared between encoder classes, say) shows the same way
    on every run."""
    base_order, words = spec
    acc = Acc()
    for s in words:
        # who sees a text first decides what a leak looks like: with 11 sets two fixed orders do not
        # put every set in front of every other, so each text starts at its own place in the cycle
        # (a deterministic function of the text; texts of the same kind cover all starting points)
        rot = (sum(ord(c) for c in s) + len(s)) % len(base_order)
        order = tuple(base_order[rot:]) + tuple(base_order[:rot])
        for i, d in enumerate(order):
            vs, cls = check(d, s)
            acc.n += 1
            acc.outcomes[cls] += 1
            if vs:
                for v in vs:
                    c = dict(v["case"], order=list(order[:i + 1]))
                    acc.violation(c, v["diagnosis"], v["detail"],
                                  sig=v.get("sig") or "%s|%s" % (
                                      v["diagnosis"], re.sub(r"[a-z]", "a", re.sub(r"[0-9]", "9", s))[:12]))
            else:
                acc.nontrivial += 1
    acc.sample({"order": list(base_order), "texts": words[:3]}, cap=1)
    return acc


def words_for(quick):
    out = list(CURATED)
    if quick:
        for n in (1, 2, 3):
            out += ["".join(t) for t in itertools.product(ALPHA14, repeat=n)]
        for n in (1, 2):
            out += ["".join(t) for t in itertools.product(ALPHA23, repeat=n)]
    else:
        for n in (1, 2, 3, 4):
            out += ["".join(t) for t in itertools.product(ALPHA23, repeat=n)]
    seen, res = set(), []
    for w in out:
        if w not in seen:
            seen.add(w)
            res.append(w)
    return res


def run(ctx):
    W = words_for(ctx.quick)
    nshard = 48 if ctx.quick else 400
    fwd = SETS
    orders = [fwd, tuple(reversed(fwd))]
    specs = [(o, W[i::nshard]) for o in orders for i in range(nshard)]
    import multiprocessing
    import random
    random.Random(ctx.seed).shuffle(specs)
    acc = Acc()
    with multiprocessing.get_context("fork").Pool(16, maxtasksperchild=1) as pool:
        for r in pool.imap_unordered(shard, specs):
            acc.merge(r)
            if __import__('mc.runner').runner.enough(acc):
                break
    cov = {
        "evaluations": acc.n, "distinct_nontrivial": acc.nontrivial,
        "rule": "%d texts (every string of length <= %s over %r%s, plus %d curated borderline texts) x 11 "
                "grammar/decoder/encoder sets (the five configurations, ISISEncoder's own default pairing, and the five again with grammar and decoder built as separate instances), in both directions around the cycle of sets, every text starting at its own place in the cycle, each shard in a fresh process; per text: decoder cascade, 16 token predicates, encoder.encode_string "
                "and re-decoding of what it wrote; non-trivial = all consistency conditions evaluated and satisfied"
                % (len(W), "3" if ctx.quick else "4", ALPHA14 if ctx.quick else ALPHA23,
                   " and <= 2 over the 23-character alphabet" if ctx.quick else "", len(CURATED)),
        "class_histogram": dict(acc.outcomes),
        "samples": acc.samples[:6], "exhaustive": True,
    }
    return {"coverage": cov, "violations": acc.violations, "violations_total": acc.vio_total,
            "assumptions": ["the class of a text is the decoder's (anchored to the specifications only for clear-cut "
                            "texts: keywords, plain decimal integers/reals, quoted text, plain alphanumeric words, "
                            "reserved words, calendar dates); whether e.g. 'inf' or '1_0' ought to be a number is C03's "
                            "business, here only consistency of reader and writer is demanded",
                            "a keyword text may also satisfy is_unquoted_string (the property allows a parameter to be "
                            "named NULL); the writer must still quote it"]}


def replay(case):
    # re-issue the same text to the dialects that came before, in the recorded order
    for d in (case.get("order") or [case["dialect"]])[:-1]:
        check(d, case["text"])
    return check(case["dialect"], case["text"])[0]
