"""C10 - list view and mapping view of the multi-dict agree after any history.

Explicit-state BFS over the real object (engine E1).  A state is the complete
concrete state of the live container (item list + dict storage), reached by
replaying the shortest history found for it on a fresh object.  Every menu
operation is applied in every state with <= BOUND pairs; the list-of-pairs
model R1 takes the same step; return value / exception class, the full
observation vector and the two-representation invariant are compared.  BFS
runs to a fixpoint, so histories of any length that stay within the size
bound are covered.  Afterwards `==`/`!=` is checked on all pairs of reached
states per class.
"""
import json

from ..runner import Acc
from ..lib import container as C
from ..lib import listmodel as M

LEVEL = "model_checking"


def params(tier):
    if tier == "quick":
        # the argument forms of insert()/extend() are told apart by the SHAPE of what is passed, so the
        # alphabets also hold a two-character key, a two-character string value and a two-element list value
        return [("OrderedMultiDict", ["a", "kk"], [1, "vv"], 3),
                ("PVLModule", ["a", "b"], [1, 2], 3),
                ("PVLGroup", ["kk", "b"], [1, [1, 2]], 2),
                ("PVLObject", ["a", "b"], [1, 2], 2)]
    return [("OrderedMultiDict", ["a", "b", "c"], [1, 2], 4),
            ("OrderedMultiDict", ["a", "kk"], [1, "vv"], 5),
            ("PVLModule", ["a", "b"], [1, 2], 4),
            ("PVLGroup", ["kk", "b"], [1, [1, 2]], 4),
            ("PVLObject", ["a", "b"], [1, 2], 4)]


def build(cls, hist, keys, vals):
    o = C.CLASSES[cls]()
    for op in hist:
        C.apply(o, op, keys, vals)
    return o


def check_step(cls, hist, op, keys, vals):
    """One transition: returns (violation or None, new_state_key, new_len, L)."""
    o = build(cls, hist, keys, vals)
    L = []
    for h in hist:
        M.apply(L, h, keys, vals)
    before = list(L)
    rm = M.apply(L, op, keys, vals)
    ri = C.apply(o, op, keys, vals)
    case = {"cls": cls, "keys": keys, "vals": vals, "history": hist, "op": op}
    if rm == M.LOOKUP:
        if ri != ("lookup",):
            return ({"case": case, "diagnosis": "expected-LookupError:" + op[0],
                     "detail": "list %r; model: LookupError, implementation: %r" % (before, ri)},
                    None, 0, L)
    else:
        if ri[0] != "ok":
            return ({"case": case, "diagnosis": "unexpected-exception:" + op[0],
                     "detail": "list %r; implementation raised %r" % (before, ri[1:])}, None, 0, L)
        if not M.ret_matches(rm[1], ri[1]):
            return ({"case": case, "diagnosis": "return-value:" + op[0],
                     "detail": "list %r; model returns %r, implementation %r" % (before, rm[1], ri[1])},
                    None, 0, L)
    inv = C.invariant(o)        # diagnostic text only; the accessors below decide
    st = C.concrete(o)
    try:
        oi = C.observe(o, keys, vals)
    except Exception as e:  # noqa: BLE001
        return ({"case": case, "diagnosis": "accessor-raised:" + op[0],
                 "detail": "list before %r, expected after %r: %s: %s%s"
                           % (before, L, type(e).__name__, e, ("; internal: " + inv) if inv else "")},
                None, 0, L)
    om = M.observe(L, keys, vals)
    diff = [k for k in om if om[k] != oi.get(k)]
    if diff:
        k = diff[0]
        return ({"case": case, "diagnosis": "view-differs:%s:%s" % (op[0], k.split(":")[0]),
                 "detail": "list before %r; model list after %r; accessor %s: model %r, "
                           "implementation %r%s" % (before, L, k, om[k], oi.get(k),
                                                    ("; internal: " + inv) if inv else "")}, None, 0, L)
    if C.concrete(o) != st:
        return ({"case": case, "diagnosis": "accessors-mutate:" + op[0],
                 "detail": "reading the views changed the container"}, None, 0, L)
    return (None, st, len(L), L)


def expand(spec):
    cls, keys, vals, bound, hists = spec
    acc = Acc()
    new = []
    for hist in hists:
        L = []
        for h in hist:
            M.apply(L, h, keys, vals)
        for op in M.menu(len(L), keys, vals):
            v, st, n, L2 = check_step(cls, hist, op, keys, vals)
            acc.n += 1
            acc.transitions += 1
            if v:
                acc.outcomes["violation"] += 1
                acc.violation(v["case"], v["diagnosis"], v["detail"])
                continue
            acc.outcomes[op[0]] += 1
            new.append((st, n, hist + [op]))
        acc.sample({"history": hist, "class": cls})
    acc.new = new
    return acc


def eq_rows(spec):
    cls, keys, vals, rows, allstates = spec
    acc = Acc()
    objs = [(L, build(cls, h, keys, vals)) for L, h in allstates]
    for i in rows:
        L1, o1 = objs[i]
        for j, (L2, o2) in enumerate(objs):
            acc.n += 1
            want = (L1 == L2)
            eq, ne = (o1 == o2), (o1 != o2)
            if eq != want or ne == want:
                acc.violation({"cls": cls, "keys": keys, "vals": vals, "history": allstates[i][1],
                               "eq_with": allstates[j][1]},
                              "equality", "lists %r / %r: == gives %r, != gives %r" % (L1, L2, eq, ne))
    return acc


def chunks(xs, k):
    return [xs[i::k] for i in range(k) if xs[i::k]]


def run(ctx):
    total = Acc()
    states_total = 0
    per = []
    for cls, keys, vals, bound in params(ctx.tier):
        seen = {}
        o = C.CLASSES[cls]()
        seen[C.concrete(o)] = (0, [])
        frontier = [[]]
        depth = 0
        while frontier:
            specs = [(cls, keys, vals, bound, part) for part in chunks(frontier, 64)]
            acc = Acc()
            news = []
            # collect `new` lists from the shards
            res = ctx.pool().map(expand, specs)
            for r in res:
                news.extend(r.new)
                r.new = None
                acc.merge(r)
            total.merge(acc)
            frontier = []
            for st, n, hist in sorted(news, key=lambda t: (len(t[2]), json.dumps(t[2]))):
                if st not in seen:
                    seen[st] = (n, hist)
                    if n <= bound:
                        frontier.append(hist)
            depth += 1
        states_total += len(seen)
        # equality over all reached states with <= bound pairs
        allstates = []
        for st, (n, hist) in seen.items():
            if n <= min(bound, 3):
                allstates.append(([list(p) for p in st[0]], hist))
        rows = list(range(len(allstates)))
        eq = ctx.pmap(eq_rows, [(cls, keys, vals, part, allstates) for part in chunks(rows, 32)])
        total.n += eq.n
        total.vio_total += eq.vio_total
        total.violations.extend(eq.violations)
        total.extra["equality_pairs"] += eq.n
        per.append({"class": cls, "keys": keys, "values": vals, "size_bound": bound,
                    "states": len(seen), "bfs_depth": depth,
                    "equality_pairs": eq.n})
    cov = {
        "evaluations": total.n,
        "distinct_nontrivial": total.transitions - total.outcomes["violation"],
        "states": states_total,
        "transitions": total.transitions,
        "traces_validated_against_impl": total.transitions,
        "rule": "explicit-state BFS over the real container from the empty container; state = "
                "complete concrete state (item list + dict storage); every operation of the "
                "documented menu (append, extend x4 forms, insert x7 argument forms x every index "
                "-(n+1)..n+1, insert_before/after x instance 0,1,-1, m[k]=v, del m[k], pop(), "
                "pop(k[,d]), popall(k[,d]), popitem, setdefault, update x4 forms, discard, clear) "
                "from every state within the size bound, to fixpoint; a transition is non-trivial "
                "when the model and the implementation both completed it and the full observation "
                "vector was compared (each (state, operation) pair is executed once)",
        "per_run": per,
        "equality_pairs": total.extra["equality_pairs"],
        "operation_histogram": dict(total.outcomes),
        "samples": total.samples[:6],
        "exhaustive": True,
    }
    return {"coverage": cov, "violations": total.violations, "violations_total": total.vio_total,
            "assumptions": [
                "small key and value alphabets stand for all keys/values: the code compares them with == and, "
                "in the argument helpers of insert()/extend(), looks at their shape (length-2 sequences) - "
                "hence one two-character key, one two-character string value and one two-element list value",
                "size bound on the item list; states at bound+1/+2 are checked but not expanded",
                "getall(k) for a missing key may raise KeyError or return [] (the property does "
                "not settle it); pop(k)/popall(k) may return the first value or all values",
                "update() with a multi-dict argument, del/assignment by integer index and the "
                "inherited Sequence mix-ins are not in the documented list and are not demanded"]}


def replay(case):
    if "eq_with" in case:
        cls, keys, vals = case["cls"], case["keys"], case["vals"]
        o1 = build(cls, case["history"], keys, vals)
        if case["eq_with"] == "list":
            return []
        o2 = build(cls, case["eq_with"], keys, vals)
        L1, L2 = list(o1), list(o2)
        want = L1 == L2
        if (o1 == o2) != want or (o1 != o2) == want:
            return [{"case": case, "diagnosis": "equality",
                     "detail": "lists %r / %r" % (L1, L2)}]
        return []
    v, _, _, _ = check_step(case["cls"], case["history"], case["op"], case["keys"], case["vals"])
    return [v] if v else []


def candidates(case):
    """Drop one operation of the history at a time (shorter histories first)."""
    if "eq_with" in case:
        return
    h = case["history"]
    for i in range(len(h)):
        c = dict(case)
        c["history"] = h[:i] + h[i + 1:]
        yield c
