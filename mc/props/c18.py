"""C18 - type-customisation hooks apply uniformly at every depth.

Engine E2: reference documents that put a real, an integer or a quantity at
every grammar position (top level, sequence element at depth 1-3, set element,
quantity magnitude, quantity inside a sequence, units on a sequence, inside
group / object / group-in-object, duplicate keys) x spellings whose digits
float() would lose x every combination of substitutes (real class: default |
Decimal | a recording float subclass that keeps the text it was built from;
quantity class: default | recording class; container classes: default |
subclasses) x the five parser/decoder families.  Oracle: every real is an
instance of the substitute and was handed the written text unaltered; every
integer is exactly int; every value-with-units and every container is of the
substitute class at every depth; mapping the substitutes back gives exactly
the module the default configuration returns.
"""
import itertools
from decimal import Decimal

from ..runner import Acc
from ..lib import impl, vjson

LEVEL = "model_checking"


class Rec(float):
    """records the text it was constructed from"""
    def __new__(cls, s):
        if not isinstance(s, str):
            raise TypeError("real_cls must be handed the token text, got %r" % (type(s).__name__,))
        o = float.__new__(cls, s)
        o.text = str(s)
        o.argtype = type(s).__name__
        return o


class Txt:
    """a real-number class outside Python's numeric tower: keeps the text, compares by value"""
    def __init__(self, s):
        if not isinstance(s, str):
            raise TypeError("real_cls must be handed the token text")
        self.value = float(s)        # ValueError for a non-number, as float() would
        self.text = str(s)

    def __eq__(self, o):
        return isinstance(o, Txt) and o.value == self.value

    def __hash__(self):
        return hash(("Txt", self.value))

    def __float__(self):
        return self.value


class RecQ:
    def __init__(self, value, units):
        self.value = value
        self.units = units

    def __eq__(self, o):
        return isinstance(o, RecQ) and (self.value, self.units) == (o.value, o.units)

    def __hash__(self):
        return hash(("RecQ", self.units))


class PartialQ(RecQ):
    """a quantity class that knows only some units and refuses the others with ValueError, as the
    astropy / pint classes do"""
    def __init__(self, value, units):
        if str(units).strip() != "m":
            raise ValueError("unknown unit %r" % (units,))
        RecQ.__init__(self, value, units)


class MyModule(impl.PVLModule):
    pass


class MyGroup(impl.PVLGroup):
    pass


class MyObject(impl.PVLObject):
    pass


REALS = ["1.50", "0.10", "1.0E3", "-2.50", "+.5", "1.", "100.000", "3." + "14159" * 12]     # the last one: 62 characters
INTS = ["7", "-3", "16#FF#", "0"]
STRS = ["abc", '"N/A"']        # a text value may carry units too (PVL): the quantity class applies to it as well

POSITIONS = [
    ("top", "k = {v}\n", 0),
    ("top-two", "k = {v}\nj = {v}\nk = {v}\n", 0),
    ("seq1", "k = ({v}, 1)\n", 0),
    ("seq1-last", "k = (1, {v})\n", 0),
    ("seq2", "k = ((1, {v}), (2, 3))\n", 0),
    ("seq2-mixed", "k = (1, ({v}, 2))\n", 1),
    ("seq3", "k = ((({v})))\n", 1),
    ("set", "k = {{{v}, zz}}\n", 0),
    ("set-in-seq", "k = ({{{v}}}, 1)\n", 1),
    ("quantity", "k = {v} <m>\n", 0),
    ("quantity-in-seq", "k = ({v} <m>, 2 <s>)\n", 0),
    ("quantity-in-seq2", "k = ((1, {v} <m>), (2, 3))\n", 0),
    ("quantity-in-set", "k = {{{v} <m>}}\n", 2),
    ("units-on-seq", "k = ({v}, 2) <m>\n", 1),
    ("in-group", "GROUP = g\n k = {v}\n j = ({v}) \nEND_GROUP\n", 0),
    ("in-object", "OBJECT = o\n k = {v} <m>\nEND_OBJECT = o\n", 0),
    ("group-in-object", "OBJECT = o\n GROUP = g\n  k = ({v}, {v} <m>)\n END_GROUP\n q = {v}\nEND_OBJECT\nz = {v}\n", 0),
    ("object-in-object", "OBJECT = o\n OBJECT = o\n  k = {v}\n END_OBJECT\nEND_OBJECT\nOBJECT = o\n k = {v}\nEND_OBJECT\n", 0),
    ("after-comment", "/* c */ k = /* d */ {v} /* e */ <m>\nEND\n", 0),
    # long runs: an integer after nine values of the other kind (and the other way round)
    ("long-seq", "k = ({v}, {v}, {v}, {v}, {v}, {v}, {v}, {v}, {v}, 7, {v}, 16#F#)\n", 0),
    ("long-set-and-block", "GROUP = g\n k = (1, 2, 3, 4, 5, 6, 7, 8, 9, {v}, 3, 16#A#)\nEND_GROUP\n", 0),
    # the module itself is a container too, also when nothing is in it
    ("empty-text", "", 0), ("blank-text", " \n\n", 0), ("comment-only", "/* c */\n", 0), ("end-only", "END\n", 0),
    # the same number written twice, differently ({w} is another spelling of {v})
    ("twice-quantity", "k = {v} <m>\nj = {w} <m>\ni = {v} <m>\n", 0),
    ("twice-quantity-in-seq", "k = ({w} <m>, {v} <m>, {w} <s>)\n", 0),
    ("twice-plain", "k = ({w}, {v})\nj = {v}\ni = {w}\n", 0),
    ("twice-in-blocks", "GROUP = g\n k = {v} <m>\nEND_GROUP\nOBJECT = o\n k = {w} <m>\nEND_OBJECT\n", 0),
]


def composed_positions(depth):
    """thorough tier: every composition, up to `depth` levels, of the value contexts (first / last /
    only element of a sequence, member of a set), ending in a bare number or a number with units,
    optionally with units on the outermost sequence, inside every block wrapper.  Whether a dialect
    accepts the construct at all is decided by loading it with the default classes."""
    ctxs = [("sf", "(§, 1)"), ("sl", "(1, §)"), ("so", "(§)"), ("set", "{§, zz}")]
    vals = [("", "§")]
    level = [("", "§")]
    for _ in range(depth):
        level = [(n + "/" + cn if n else cn, t.replace("§", ct)) for n, t in level for cn, ct in ctxs]
        vals += level
    wrappers = [("top", "k = §\nj = 1\n"),
                ("group", "GROUP = g\n a = 1\n k = §\nEND_GROUP\n"),
                ("object", "OBJECT = o\n k = §\nEND_OBJECT = o\nz = 2\n"),
                ("group-in-object", "OBJECT = o\n GROUP = g\n  k = §\n END_GROUP\nEND_OBJECT\n"),
                ("object-in-object-twice", "OBJECT = o\n OBJECT = o\n  k = §\n END_OBJECT\n OBJECT = o\n  k = §\n END_OBJECT\nEND_OBJECT\n")]
    out = []
    for wn, wt in wrappers:
        for vn, vt in vals:
            for tn, tt in (("bare", "§"), ("units", "§ <m>")):
                forms = [(vn + ":" + tn, vt.replace("§", tt))]
                if vt.startswith("(") and tn == "bare":
                    forms.append((vn + ":seq-units", vt + " <m>"))
                for fn, ft in forms:
                    t = wt.replace("§", ft).replace("{", "{{").replace("}", "}}").replace("§", "{v}")
                    out.append(("%s|%s" % (wn, fn), t, 0))
    return out


ALT = {"3." + "14159" * 12: "3.14159", "1.50": "1.5", "0.10": "0.100", "1.0E3": "1000.0", "-2.50": "-2.5", "+.5": "0.50", "1.": "1", "100.000": "100",
       "7": "7.0", "-3": "-3.00", "16#FF#": "255.0", "0": "0.0", "abc": '"abc"', '"N/A"': "'N/A'"}
# third field: 0 = all dialects; 1 = not ODL/PDS3 (ODL has no such construct); 2 = only where a
# quantity is hashable (default Quantity is a namedtuple: fine; RecQ defines __hash__)


def parser_for(d, real, qty, cont):
    real_cls = {"float": None, "Decimal": Decimal, "Rec": Rec, "Txt": Txt}[real]
    q_cls = {"Quantity": None, "RecQ": RecQ, "PartialQ": PartialQ}[qty]
    kw = {}
    if cont:
        kw = dict(module_class=MyModule, group_class=MyGroup, object_class=MyObject)
    if d == "PVL":
        g = impl.PVLGrammar()
        return impl.PVLParser(grammar=g, decoder=impl.PVLDecoder(grammar=g, quantity_cls=q_cls, real_cls=real_cls), **kw)
    if d == "ODL":
        g = impl.ODLGrammar()
        return impl.ODLParser(grammar=g, decoder=impl.ODLDecoder(grammar=g, quantity_cls=q_cls, real_cls=real_cls), **kw)
    if d == "PDS3":
        g = impl.PDSGrammar()
        return impl.ODLParser(grammar=g, decoder=impl.PDSLabelDecoder(grammar=g, quantity_cls=q_cls, real_cls=real_cls), **kw)
    if d == "ISIS":
        g = impl.ISISGrammar()
        return impl.OmniParser(grammar=g, decoder=impl.OmniDecoder(grammar=g, quantity_cls=q_cls, real_cls=real_cls), **kw)
    # grammar and decoder built separately (the decoder keeps the grammar it builds for itself)
    if d == "PVLsep":
        return impl.PVLParser(grammar=impl.PVLGrammar(), decoder=impl.PVLDecoder(quantity_cls=q_cls, real_cls=real_cls), **kw)
    if d == "ODLsep":
        return impl.ODLParser(grammar=impl.ODLGrammar(), decoder=impl.ODLDecoder(quantity_cls=q_cls, real_cls=real_cls), **kw)
    if d == "PDS3sep":
        return impl.ODLParser(grammar=impl.PDSGrammar(), decoder=impl.PDSLabelDecoder(quantity_cls=q_cls, real_cls=real_cls), **kw)
    if d == "ISISsep":
        return impl.OmniParser(grammar=impl.ISISGrammar(), decoder=impl.OmniDecoder(quantity_cls=q_cls, real_cls=real_cls), **kw)
    if d == "TOKENS":
        g = impl.PVLGrammar()
        return impl.PVLParser(grammar=g, decoder=impl.PVLDecoder(grammar=g, quantity_cls=q_cls, real_cls=real_cls), **kw)
    return None      # OMNI goes through pvl.loads(), see load()


FAMILIES = tuple(impl.DIALECTS) + ("PVLsep", "ODLsep", "PDS3sep", "ISISsep", "OMNIsep", "OMNIbytes", "NEW", "TOKENS")


def _old_classes(m):
    K = {impl.PVLModuleNew: impl.PVLModule, impl.PVLGroupNew: impl.PVLGroup, impl.PVLObjectNew: impl.PVLObject}
    if type(m) in K:
        return K[type(m)]([(k, _old_classes(v)) for k, v in m.items()])
    return m


def load(d, text, real, qty, cont):
    if d in ("OMNI", "OMNIsep", "OMNIbytes", "NEW"):
        import pvl
        real_cls = {"float": None, "Decimal": Decimal, "Rec": Rec, "Txt": Txt}[real]
        q_cls = {"Quantity": None, "RecQ": RecQ, "PartialQ": PartialQ}[qty]
        kw = {}
        if cont:
            kw = dict(module_class=MyModule, group_class=MyGroup, object_class=MyObject)
        if d == "NEW":
            # the other convenience function: its own container classes, mapped back to the default
            # ones before the result is looked at
            import pvl.new
            return _old_classes(pvl.new.loads(text, decoder=impl.OmniDecoder(quantity_cls=q_cls, real_cls=real_cls)))
        if d == "OMNIsep":
            return pvl.loads(text, grammar=impl.OmniGrammar(),
                             decoder=impl.OmniDecoder(quantity_cls=q_cls, real_cls=real_cls), **kw)
        if d == "OMNIbytes":
            text = text.encode("utf-8")
        return pvl.loads(text, decoder=impl.OmniDecoder(quantity_cls=q_cls, real_cls=real_cls), **kw)
    if d == "TOKENS":
        # the parser's public token-level entry point, fed by a lexer the caller started without a decoder
        # (this is how the repository's own tests drive the parser): the parser's decoder still decides
        from pvl.lexer import lexer
        p = parser_for(d, real, qty, cont)
        return p.parse_module(lexer(text, g=p.grammar))
    return parser_for(d, real, qty, cont).parse(text)


def walk(v, real, qty, cont, spelled, problems, path, top=False, key=None):
    """checks the classes at every depth and returns the value mapped back to
    the default classes.  `spelled` is the queue of real-number spellings in
    textual order (consumed depth first)."""
    if isinstance(v, impl.OrderedMultiDict):
        # the generator names groups 'g' and objects 'o'
        if key == "g" and not isinstance(v, impl.PVLGroup):
            problems.append("%s: a GROUP block came back as %s" % (path, type(v).__name__))
        if key == "o" and not isinstance(v, impl.PVLObject):
            problems.append("%s: an OBJECT block came back as %s" % (path, type(v).__name__))
        want = {impl.PVLModule: MyModule, impl.PVLGroup: MyGroup, impl.PVLObject: MyObject}
        if cont:
            if type(v) not in (MyModule, MyGroup, MyObject):
                problems.append("%s: container is %s, not the substitute class" % (path, type(v).__name__))
            base = [b for b, s in want.items() if isinstance(v, s)]
            base = base[0] if base else type(v)
        else:
            if type(v) not in want:
                problems.append("%s: container is %s" % (path, type(v).__name__))
            base = type(v)
        return base([(k, walk(x, real, qty, cont, spelled, problems, path + "." + str(k), key=k)) for k, x in v])
    if isinstance(v, RecQ) or isinstance(v, impl.Quantity):
        if (qty in ("RecQ", "PartialQ")) != isinstance(v, RecQ) or (qty == "PartialQ") != isinstance(v, PartialQ):
            problems.append("%s: value-with-units is %s, quantity class requested %s" % (path, type(v).__name__, qty))
        return impl.Quantity(walk(v.value, real, qty, cont, spelled, problems, path + ".value"),
                             v.units)
    if isinstance(v, list):
        return [walk(x, real, qty, cont, spelled, problems, "%s[%d]" % (path, i)) for i, x in enumerate(v)]
    if isinstance(v, (set, frozenset)):
        return type(v)(walk(x, real, qty, cont, spelled, problems, path + "{}") for x in v)
    if isinstance(v, bool) or v is None or isinstance(v, str):
        return v
    if isinstance(v, Txt) and real != "Txt":
        problems.append("%s: unexpected Txt" % path)
    if type(v) is int:
        return v
    if isinstance(v, int):
        problems.append("%s: integer came back as %s" % (path, type(v).__name__))
        return int(v)
    # a real
    text = spelled.pop(0) if spelled else None
    if real == "float":
        if type(v) is not float:
            problems.append("%s: real is %s, expected float" % (path, type(v).__name__))
        return float(v)
    if real == "Decimal":
        if type(v) is not Decimal:
            problems.append("%s: real is %s, expected Decimal" % (path, type(v).__name__))
            return float(v)
        if text is not None and str(v) != str(Decimal(text)):
            problems.append("%s: Decimal lost written digits: %r from %r" % (path, str(v), text))
        return float(v)
    if real == "Txt":
        if type(v) is not Txt:
            problems.append("%s: real is %s, expected the text-keeping class" % (path, type(v).__name__))
            return float(v)
        if text is not None and v.text != text:
            problems.append("%s: real class was handed %r, the text says %r" % (path, v.text, text))
        return float(v)
    if real == "Rec":
        if type(v) is not Rec:
            problems.append("%s: real is %s, expected the recording class" % (path, type(v).__name__))
            return float(v)
        if text is not None and v.text != text:
            problems.append("%s: real class was handed %r, the text says %r" % (path, v.text, text))
        return float(v)
    return v


def spelled_is_real(s):
    import re
    return bool(re.fullmatch(r"[+-]?([0-9]+\.?[0-9]*|\.[0-9]+)([Ee][+-]?[0-9]+)?", s)) and ("." in s or "E" in s.upper())


def real_queue(tmpl, v, w):
    """spellings of the reals of the document in textual order, or None when the
    order of the result is not textual (sets with more than one real)"""
    out = []
    for m in __import__("re").finditer(r"\{([vw])\}", tmpl.replace("{{", "").replace("}}", "")):
        t = v if m.group(1) == "v" else w
        if spelled_is_real(t):
            out.append(t)
    return out


def check_case(case):
    d, text, real, qty, cont = (case["dialect"], case["text"], case["real"], case["qty"], case["cont"])
    spelled = list(case["reals"])
    out = []
    try:
        base = load(d, text, "float", "Quantity", False)
    except (impl.LexerError, impl.ParseError):
        return out, "rejected-by-default-config"     # not this property's business (C03)
    try:
        m = load(d, text, real, qty, cont)
    except Exception as e:  # noqa: BLE001
        if qty == "PartialQ" and "<s>" in text:
            return out, "refused-by-the-quantity-class"       # the class does not know the unit: not a result
        out.append({"case": case, "diagnosis": "substitutes-change-acceptance:" + d,
                    "detail": "text %r loads with the default classes but raises %s: %s with real=%s "
                              "quantity=%s containers=%s" % (text, type(e).__name__, str(e)[:150], real, qty, cont)})
        return out, "raised"
    problems = []
    back = walk(m, real, qty, cont, spelled, problems, "module")
    for p in problems:
        out.append({"case": case, "diagnosis": "substitute-not-applied:" + d, "detail": "text %r: %s" % (text, p)})
    if not problems and vjson.canon(back) != vjson.canon(base):
        out.append({"case": case, "diagnosis": "substitutes-change-result:" + d,
                    "detail": "text %r: mapped back %r, default configuration %r"
                              % (text, vjson.canon(back), vjson.canon(base))})
    return out, "ok"


def shard(spec):
    d, pos_idx = spec
    name, tmpl, restrict = POSITIONS[pos_idx]
    acc = Acc()
    if restrict == 1 and d in ("ODL", "PDS3", "ODLsep", "PDS3sep"):
        return acc
    for spelled in REALS + INTS + STRS:
        text = tmpl.format(v=spelled, w=ALT[spelled])
        for real, qty, cont in itertools.product(("float", "Decimal", "Rec", "Txt"), ("Quantity", "RecQ", "PartialQ"), (False, True)):
            if restrict == 2 and d in ("ODL", "PDS3", "ODLsep", "PDS3sep"):
                continue
            if d == "NEW" and cont:
                continue
            if qty == "PartialQ" and real not in ("float", "Decimal"):
                continue
            case = {"dialect": d, "text": text, "real": real, "qty": qty, "cont": cont,
                    "reals": real_queue(tmpl, spelled, ALT[spelled]), "position": name}
            vs, status = check_case(case)
            acc.n += 1
            acc.traces += 1
            acc.sets["pos"].add((name, real, qty, cont))
            acc.outcomes[status if not vs else "violation"] += 1
            if vs:
                for v in vs[:2]:
                    acc.violation(v["case"], v["diagnosis"], v["detail"],
                                  sig="%s|%s|%s|%s|%s" % (v["diagnosis"], name, real, qty, cont))
            elif status == "ok":
                acc.nontrivial += 1
    acc.sample({"dialect": d, "position": name, "template": tmpl}, cap=1)
    return acc


def run(ctx):
    if not ctx.quick:
        POSITIONS.extend(composed_positions(3))      # module-level list: the forked workers inherit it
    specs = [(d, i) for d in FAMILIES for i in range(len(POSITIONS))]
    acc = ctx.pmap(shard, specs)
    cov = {
        "evaluations": acc.n, "distinct_nontrivial": acc.nontrivial,
        "states": len(acc.sets["pos"]), "transitions": acc.traces,
        "traces_validated_against_impl": acc.traces,
        "rule": "%d grammar positions (the curated ones; thorough adds every composition up to depth 3 of sequence-first / sequence-last / sequence-only / set-member contexts x bare | with units | units on the sequence x 5 block wrappers) x %d spellings (reals %r, integers and strings %r) x 4 real classes (float, Decimal, a recording float subclass, a text-keeping class outside the numeric tower) x 3 quantity classes (default, a recording class, a partial class that refuses units it does not know) x "
                "2 container-class sets x 13 parser/decoder families (the five configurations; four of them and pvl.loads again with grammar and decoder built separately; pvl.loads of bytes; pvl.new.loads; PVLParser.parse_module on a token stream from a bare lexer), full product; states = (position, "
                "substitute combination); non-trivial = both configurations loaded and every node of the result "
                "was type-checked and compared after mapping back" % (len(POSITIONS), len(REALS + INTS + STRS), REALS, INTS + STRS),
        "outcome_histogram": dict(acc.outcomes),
        "samples": acc.samples[:6], "exhaustive": True,
    }
    return {"coverage": cov, "violations": acc.violations, "violations_total": acc.vio_total,
            "assumptions": ["whether a text is accepted at all is C03's business; a text the default "
                            "configuration rejects is skipped here",
                            "ODL/PDS3 have no sequences deeper than two, sets in sequences or units on sequences: "
                            "those positions are not demanded there"]}


def replay(case):
    return check_case(case)[0]
