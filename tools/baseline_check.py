#!/usr/bin/env python3
"""Run the repository's pinned baseline in <repo> (default /repo) with the
verification guard OFF and compare with /root/.vp/BASELINE.json: every test in
stable_pass must pass.  Exit 0 when they all do."""
import json, os, subprocess, sys, tempfile
import xml.etree.ElementTree as ET

repo = sys.argv[1] if len(sys.argv) > 1 else "/repo"
base = json.load(open("/root/.vp/BASELINE.json"))
fd, junit = tempfile.mkstemp(suffix=".xml"); os.close(fd)
env = {k: v for k, v in os.environ.items() if k not in ("PVL_VERIF", "PYTHONHASHSEED")}
env["PYTHONDONTWRITEBYTECODE"] = "1"
r = subprocess.run(["/venv/bin/python", "-m", "pytest", "-ra", "-q", "-p", "no:cacheprovider",
                    "--timeout=900", "--continue-on-collection-errors", "--junitxml=" + junit],
                   cwd=repo, env=env, capture_output=True, text=True)
passed = set()
for tc in ET.parse(junit).getroot().iter("testcase"):
    if not any(c.tag in ("failure", "error", "skipped") for c in tc):
        passed.add(tc.get("classname") + "::" + tc.get("name"))
os.unlink(junit)
missing = [t for t in base["stable_pass"] if t not in passed]
print("baseline: %d/%d stable tests pass in %s" % (len(base["stable_pass"]) - len(missing),
                                                   len(base["stable_pass"]), repo))
for t in missing[:20]:
    print("  NOT PASSING:", t)
sys.exit(1 if missing else 0)
