#!/usr/bin/env python3
"""Prints the prompt for a seeding sub-agent: property text + its worktree only."""
import json, sys
pid, wt, out = sys.argv[1], sys.argv[2], sys.argv[3]
extra = sys.argv[4] if len(sys.argv) > 4 else ""
p = [json.loads(l) for l in open('/verif/properties.jsonl') if json.loads(l)['id'] == pid][0]
print(f"""You are helping test a verification harness for the Python library planetarypy/pvl (a lexer, parser, decoder and encoder for PVL/ODL/PDS3/ISIS label text with an ordered multi-dict container). You get ONE semantic property of the library and your own scratch git worktree of the repository. Your job: produce realistic source changes ("seeded defects") to the library that BREAK the property while the repository still imports fine and its existing test suite still passes exactly as before.

PROPERTY {pid}: {p['title']}
Statement: {p['statement']}
Quantified over: {p['quantifier']['text']}
Code it is anchored in: {', '.join(p['anchors']['files'])}; mechanisms: {'; '.join(m['name'] + ' (' + m['where'] + ')' for m in p['anchors']['mechanism'])}

YOUR WORKTREE: {wt}  (a detached git worktree of the repository; the package is the directory {wt}/pvl). Work ONLY inside this directory and your output directory {out}. Never touch /repo or /verif, never read /verif.

RULES
1. Produce up to 3 INDEPENDENT changes (each a separate patch against the clean worktree HEAD, each breaking the property by a different mechanism). Each change should be small and look like something a developer could plausibly write (a refactor gone slightly wrong, an off-by-one, a forgotten case, a "performance optimisation", a shared mutable default, an inherited method not overridden, a regex tweak, an early return...). NOT a change that ordinary use would expose at once: it must need something specific to manifest - a multi-step sequence of operations, a particular unusual input or neighbourhood, a particular option combination, or two cooperating sites that each look fine alone. Changes in the files named above only (the pvl package, not the tests).
2. The existing tests must still pass exactly as before. Run, from inside the worktree: `python3 /tmp/seedtools/baseline_check.py {wt}` - it must print "262/262 stable tests pass" (9 other tests fail at baseline because of an incompatible multidict version; ignore those). A change that makes any of the 262 fail is rejected.
3. For each change write a demonstration program demo.py (plain Python, no pytest needed, run as `cd {wt} && PYTHONPATH={wt} /venv/bin/python <demo.py>`; note the package must be imported from the worktree, so keep PYTHONPATH) that exits 0 on the clean worktree and exits 1 (printing what went wrong) with your change applied, and that demonstrates a violation OF THE PROPERTY AS STATED (not of some other behaviour). Verify both directions yourself (save your change with `git diff > file`, restore the clean tree with `git checkout -- .`, re-apply with `git apply file`; do NOT use `git stash` - the stash is shared by all worktrees of this repository and other agents work concurrently).
4. Deliverables, for change n = 1, 2, 3: {out}/{pid}_n/patch.diff (output of `git -C {wt} diff` with only that change applied), {out}/{pid}_n/demo.py, {out}/{pid}_n/notes.md (3-6 lines: what was changed, why tests still pass, what exactly is needed to make it manifest). Leave the worktree clean (git -C {wt} checkout -- .) when you finish.
5. Do not weaken or special-case to make it undetectable by silly means (no environment checks, no randomness, no time bombs, no dependence on process ids); the defect must be a deterministic function of the inputs/operations. Do not add new files to the package.
{extra}
Use /venv/bin/python (Python 3.12; it has pytest and multidict). There is no network. When done, reply with a short summary: for each change one line (file/function touched, how it manifests) and confirm the baseline result and both demo directions.""")
