#!/usr/bin/env python3
"""Regenerates MANIFEST.json from the table below (single source of truth)."""
import json, os
HERE = os.path.dirname(os.path.dirname(os.path.abspath(__file__)))
CHECKS = json.load(open(os.path.join(HERE, "tools", "checks.json")))
NA = json.load(open(os.path.join(HERE, "tools", "not_applicable.json")))
checks = []
for c in CHECKS:
    pid = c["id"]
    checks.append({
        "property_id": pid,
        "quick_cmd": "./vcheck %s quick" % pid,
        "thorough_cmd": "./vcheck %s thorough" % pid,
        "evidence_file": "evidence/%s.json" % pid,
        "replay_cmd_template": "./vcheck --replay {path}",
        "engine": c["engine"],
        "level_claimed": {"category": c["category"], "text": c["text"], "design_ref": c["design_ref"]},
        "level_note": c["note"],
        "technique": c["technique"],
    })
m = {
    "version": 1,
    "setup_cmd": "cd /verif && chmod +x vcheck && /venv/bin/python -c 'import sys; sys.path.insert(0, \"/repo\"); import pvl, multidict'",
    "hooks": {
        "guard": "PVL_VERIF",
        "enable": "no source hooks: every observation point is public (lexer_fn, container classes, real_cls, "
                  "dict.items, vars); vcheck exports PVL_VERIF=1 for uniformity, /repo never reads it",
        "baseline_off_cmd": "python3 /verif/tools/baseline_check.py /repo",
        "source_commits": [],
        "add_only": True,
    },
    "engines": [
        {"name": "E1-history-bfs", "path": "mc/props/c10.py", "serves_properties": ["C10", "C11", "C13", "C16"],
         "kind_free_text": "explicit-state BFS over live objects; state = complete concrete state; reference model steps in lockstep"},
    ],
    "checks": checks,
    "not_applicable": NA,
    "notes": "All checks: ./vcheck <Cnn> quick|thorough from /verif; /venv/bin/python imports pvl from /repo's working tree "
             "(sys.path[0]=/repo, asserted). VERIF_SEED only permutes the visiting order of the same finite space. "
             "Known findings: KNOWN_FINDINGS.txt (never written at run time).",
}
json.dump(m, open(os.path.join(HERE, "MANIFEST.json"), "w"), indent=1)
print("MANIFEST.json: %d checks, %d not_applicable" % (len(checks), len(NA)))
