#!/bin/bash
# tools/run_all.sh quick|thorough [seed]   - runs every claimed check (or those in $CHECKS, e.g. "01 02 15"), prints one line each
tier=${1:-quick}; export VERIF_SEED=${2:-0}
cd "$(dirname "$0")/.."
for i in ${CHECKS:-$(seq -w 1 20)}; do
  s=$(date +%s)
  out=$(./vcheck C$i $tier 2>&1); rc=$?
  e=$(( $(date +%s) - s ))
  echo "C$i rc=$rc ${e}s $(echo "$out" | grep -c '^VIOLATION') violations, $(echo "$out" | grep -c '^KNOWN-FINDING') known, $(echo "$out" | grep -c WARNING) warnings"
done
