#!/bin/bash
# tools/try_seed.sh <dir with patch.diff [demo.py]> <Cnn> [quick|thorough] [--full]
# Applies the patch to a scratch clone of /repo's HEAD (outside /repo and /verif, removed afterwards),
# (with --full: runs the 262 baseline tests and the demo there), runs the check against the clone.
# Evidence / replays of such runs go to the scratch directory, never to /verif/evidence.
d=$1; pid=$2; tier=${3:-quick}; full=$4
V=$(cd "$(dirname "$0")/.." && pwd)
S=$(mktemp -d /tmp/tryseed.XXXXXX); trap 'rm -rf $S' EXIT
git clone -q /repo $S/repo || exit 2
cd $S/repo
if [ "$full" = "--full" ] && [ -f "$d/demo.py" ]; then
  PYTHONPATH=$S/repo /venv/bin/python "$d/demo.py" >/dev/null 2>&1; echo "demo on clean tree: exit $?"
fi
git apply --3way "$d/patch.diff" 2>/dev/null || git apply "$d/patch.diff" || { echo "patch does not apply"; exit 2; }
git reset -q
if [ "$full" = "--full" ]; then
  python3 $V/tools/baseline_check.py $S/repo | head -1
  if [ -f "$d/demo.py" ]; then PYTHONPATH=$S/repo /venv/bin/python "$d/demo.py" >/dev/null 2>&1; echo "demo with patch: exit $?"; fi
fi
cd $V && VERIF_REPO=$S/repo VERIF_OUT=$S/out ./vcheck $pid $tier > $S/log 2>&1; rc=$?
grep -E "VIOLATION|diagnosis|^C[0-9]+ |KNOWN|WARNING|Error|Traceback" $S/log | head -${TRY_LINES:-8}
echo "check exit: $rc"
