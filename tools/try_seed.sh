#!/bin/bash
# tools/try_seed.sh <dir with patch.diff [demo.py]> <Cnn> [quick|thorough] [--full]
# Applies the patch to /repo, (with --full: runs the baseline and the demo), runs the
# check, and always reverts /repo afterwards.
d=$1; pid=$2; tier=${3:-quick}; full=$4
cd /repo || exit 2
if [ -n "$(git status --porcelain -- pvl)" ]; then echo "/repo not clean"; exit 2; fi
if [ "$full" = "--full" ] && [ -f "$d/demo.py" ]; then
  PYTHONPATH=/repo /venv/bin/python "$d/demo.py" >/dev/null 2>&1; echo "demo on clean tree: exit $?"
fi
git apply --3way "$d/patch.diff" 2>/dev/null || git apply "$d/patch.diff" || { echo "patch does not apply"; git checkout -- .; exit 2; }
git reset -q
if [ "$full" = "--full" ]; then
  python3 /verif/tools/baseline_check.py /repo | head -3
  if [ -f "$d/demo.py" ]; then PYTHONPATH=/repo /venv/bin/python "$d/demo.py" >/dev/null 2>&1; echo "demo with patch: exit $?"; fi
fi
cd /verif && VERIF_OUT=/tmp/try_seed_out ./vcheck $pid $tier 2>&1 | grep -E "VIOLATION|diagnosis|^C[0-9]+ |KNOWN|WARNING|Error|Traceback" | head -12
echo "check exit: ${PIPESTATUS[0]}"
cd /repo && git checkout -- . && git status --porcelain -- pvl | head
