#!/bin/bash
# tools/check_seeds.sh [tier] [ids...]  - applies every kept seed in turn to a scratch clone of /repo's HEAD
# (outside /repo and /verif, removed at the end), runs the check of its property (plus any extra check named in
# meta.json "also_checks") against that clone, expects exit 1, reverts.  Writes seeded/RESULTS.txt.
# Evidence and replays of these runs go to the scratch directory, never to /verif/evidence.
tier=${1:-quick}; shift
V=$(cd "$(dirname "$0")/.." && pwd); cd $V   # /verif, or a snapshot copy of it
ids=${@:-$(ls seeded | grep -E '^C[0-9]+_[0-9]+$')}
out=seeded/RESULTS.txt; [ $# -eq 0 ] && : > $out
S=$(mktemp -d /tmp/seedcheck.XXXXXX)
git clone -q /repo $S/repo || exit 2
export VERIF_REPO=$S/repo VERIF_OUT=$S/out
# only "is the change detected at all" is asked here: stop at the first violating shard (FULL=1 for complete runs)
[ -z "$FULL" ] && export VERIF_FAILFAST=1
[ $# -eq 0 ] && echo "# repo HEAD $(git -C /repo rev-parse --short HEAD), verif $(git -C $V rev-parse --short HEAD), tier $tier" >> $out
for id in $ids; do
  d=$V/seeded/$id; pid=${id%_*}
  if ! (git -C $S/repo apply --3way $d/patch.diff 2>/dev/null || git -C $S/repo apply $d/patch.diff 2>/dev/null); then
    echo "$id $pid PATCH-DOES-NOT-APPLY" | tee -a $out; git -C $S/repo reset -q --hard HEAD; continue
  fi
  git -C $S/repo reset -q
  checks="$pid $(python3 -c "import json;print(' '.join(json.load(open('$d/meta.json')).get('also_checks',[])))")"
  res=""
  for c in $checks; do
    s=$(date +%s)
    ./vcheck $c $tier > $S/run.log 2>&1; rc=$?
    if [ $rc -eq 0 ] && [ -n "$VERIF_FAILFAST" ]; then
      # the first violating shard may hold only cases that need the rest of the run to reproduce: complete run
      VERIF_FAILFAST= ./vcheck $c $tier > $S/run.log 2>&1; rc=$?
    fi
    res="$res $c:rc=$rc:$(grep -c '^VIOLATION' $S/run.log)v:$(( $(date +%s) - s ))s"
  done
  git -C $S/repo reset -q --hard HEAD
  echo "$id$res" | tee -a $out
done
rm -rf $S
