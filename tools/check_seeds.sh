#!/bin/bash
# tools/check_seeds.sh [tier] [ids...]  - applies every kept seed to /repo in turn, runs the check of its
# property (plus any extra check named in meta.json "also_checks"), expects exit 1, reverts. Writes seeded/RESULTS.txt
tier=${1:-quick}; shift
cd /verif
ids=${@:-$(ls seeded | grep -E '^C[0-9]+_[0-9]+$')}
out=seeded/RESULTS.txt; [ $# -eq 0 ] && : > $out
for id in $ids; do
  d=/verif/seeded/$id; pid=${id%_*}
  if [ -n "$(git -C /repo status --porcelain -- pvl)" ]; then echo "/repo not clean"; exit 2; fi
  if ! (git -C /repo apply --3way $d/patch.diff 2>/dev/null || git -C /repo apply $d/patch.diff 2>/dev/null); then
    echo "$id $pid PATCH-DOES-NOT-APPLY" | tee -a $out; git -C /repo reset -q --hard HEAD; continue
  fi
  git -C /repo reset -q
  checks="$pid $(python3 -c "import json;print(' '.join(json.load(open('$d/meta.json')).get('also_checks',[])))")"
  res=""
  for c in $checks; do
    ./vcheck $c $tier > /tmp/seedrun.log 2>&1; rc=$?
    res="$res $c:rc=$rc:$(grep -c '^VIOLATION' /tmp/seedrun.log)v"
  done
  git -C /repo reset -q --hard HEAD
  echo "$id$res" | tee -a $out
done
