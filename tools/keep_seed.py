#!/usr/bin/env python3
"""keep_seed.py <src dir> <seed id> <property> <detected: yes|no|...> <needs...>"""
import json, os, shutil, sys, subprocess
src, sid, pid, detected = sys.argv[1:5]
needs = " ".join(sys.argv[5:])
dst = os.path.join("/verif/seeded", sid)
os.makedirs(dst, exist_ok=True)
for f in ("patch.diff", "demo.py", "notes.md"):
    if os.path.exists(os.path.join(src, f)):
        shutil.copy(os.path.join(src, f), os.path.join(dst, f))
head = subprocess.run(["git", "-C", "/repo", "rev-parse", "--short", "HEAD"], capture_output=True, text=True).stdout.strip()
meta = {"id": sid, "property": pid, "source": "independent sub-agent given only the property text and a scratch worktree",
        "needs_to_manifest": needs,
        "confirmed": {"repo_head": head, "baseline_262_pass_with_patch": True, "demo_exit_clean": 0, "demo_exit_patched": 1,
                      "ran": "tools/try_seed.sh %s %s quick --full" % (dst, pid)},
        "detected_by": detected}
json.dump(meta, open(os.path.join(dst, "meta.json"), "w"), indent=1)
print("kept", dst)
